"""C14 bounded part: every command is run on small real worlds between two full snapshots of the *whole* world
(the root, its parent, the cwd, external option files, the flatten destination, symlink targets) and with an audit
hook recording every modifying file-system call made anywhere on the machine.

Oracle (the statement, nothing of the implementation):
  verify (all modes), diff, info, hash, xsd-schema-check : the snapshots are equal and no modifying call was made
  flatten   : every difference lies at/below the destination folder (the destination's parent may get a new mtime when
              the destination itself is created); in particular no ascmhl folder of the source changes
  create    : differences only inside the ascmhl folders of the root history and of the histories nested below it:
              added = the chain file and the new manifest(s) (at most one per history, listed by the new chain);
              changed = the chain file only; removed = nothing (a stale '*.tmp' scratch file of a killed run may
              vanish); an ascmhl folder may be created only directly in the root and then the root's own mtime may
              change; every other entry (media files, directories, symlinks, option files) keeps type, bytes, mtime_ns
              and mode.
  killed create / flatten (subprocess ended with os._exit at the k-th file-system event): the same frames, except that
              a killed run may leave unfinished files inside the ascmhl folders (destination) it was writing; old manifests and
              everything outside stay as they were; the commands run next (verify, info, create, ...) are judged as above.
A modifying call recorded by the audit hook (mkdir, remove, rename, utime, chmod, truncating/creating open, tempfile, ...) is
a violation for the read-only commands wherever it goes; for create / flatten when it hits an existing path outside the frame
or leaves a new entry there (scratch entries elsewhere that are gone again are tolerated).
Before each command every entry of the world is given an old mtime with a non-zero nanosecond part (instants on both
sides of / inside daylight-saving switches), so a rewrite or an mtime "restore" with coarser precision is visible.
"""
import concurrent.futures
import glob
import hashlib
import json
import os
import random
import re
import shutil
import subprocess
import sys
import time
import xml.etree.ElementTree as ET

from . import scen as S
from . import world as W
from .common import REPO, Run

M = 1 << 20
CHAIN = "ascmhl_chain.xml"
MANIFEST_RE = re.compile(r"^\d{4,}_.*\.mhl$")

# ------------------------------------------------------------------------------------------------ audit recorder
_REC = None
_WFLAGS = os.O_WRONLY | os.O_RDWR | os.O_APPEND | os.O_CREAT | os.O_TRUNC
# event -> indices of the path arguments that are written / removed
_PATH_EVENTS = {
    "os.mkdir": (0,),
    "os.rmdir": (0,),
    "os.remove": (0,),
    "os.rename": (0, 1),
    "os.symlink": (1,),
    "os.link": (1,),
    "os.utime": (0,),
    "os.chmod": (0,),
    "os.chown": (0,),
    "os.truncate": (0,),
    "os.setxattr": (0,),
    "os.removexattr": (0,),
    "shutil.copyfile": (1,),
    "shutil.copymode": (1,),
    "shutil.copystat": (1,),
    "shutil.copytree": (1,),
    "shutil.move": (0, 1),
    "shutil.rmtree": (0,),
    "tempfile.mkstemp": (0,),
    "tempfile.mkdtemp": (0,),
}


def definite(ev, extra, existed):
    """does this recorded call change the disk whatever happens next? (mkdir of an existing folder or an append-mode open
    of an existing file do not; whether something was written through an open file is decided by the snapshots)"""
    if ev == "open":
        return bool((extra & os.O_CREAT and not existed) or (extra & os.O_TRUNC and existed))
    if ev in ("os.mkdir", "os.symlink", "os.link"):
        return not existed
    if ev in ("os.rename", "shutil.move"):
        return existed if extra == 0 else True
    if ev in ("tempfile.mkstemp", "tempfile.mkdtemp", "shutil.copyfile", "shutil.copytree"):
        return True
    return existed


def _norm(p):
    p = os.fsdecode(p)
    if not os.path.isabs(p):
        p = os.path.join(os.getcwd(), p)
    p = os.path.normpath(p)
    return os.path.join(os.path.realpath(os.path.dirname(p)), os.path.basename(p))


def _hook(event, args):
    rec = _REC
    if rec is None:
        return
    try:
        if event == "open":
            path, _, flags = args
            if isinstance(flags, int) and flags & _WFLAGS and not isinstance(path, int):
                p = _norm(path)
                rec.append(("open", p, flags, os.path.lexists(p)))
        elif event in _PATH_EVENTS:
            for i in _PATH_EVENTS[event]:
                if i < len(args) and args[i] is not None and not isinstance(args[i], int):
                    p = _norm(args[i])
                    rec.append((event, p, i, os.path.lexists(p)))
        elif event in ("subprocess.Popen", "os.system", "os.exec", "os.posix_spawn", "os.fork"):
            rec.append((event, repr(args)[:200], 0, False))
    except Exception:  # the recorder must never disturb the command
        pass


# ------------------------------------------------------------------------------------------------ worlds
OWN_TREES = {
    "sizes": {"below.bin": b"\xab" * (M - 1), "at.bin": b"\xcd" * M, "above.bin": b"\xef" * (M + 1), "zero.bin": b"", "E/": ""},
    "filelink": {"a.txt": "a", "l.txt": ("link", "a.txt"), "D/b.txt": "b"},
    "links": {
        "A/a.txt": "a",
        "lnk_file": ("link", "A/a.txt"),
        "lnk_dir_in": ("link", "A"),
        "lnk_dir_out": ("link", "../ext/target"),
        "lnk_dangling": ("link", "nowhere"),
    },
}
OWN_NESTED = {"sizes": [[]], "filelink": [[], ["D"]], "links": [[], ["A"]]}
TREES = dict(S.TREES, **OWN_TREES)
NESTED = dict(S.NESTED, **OWN_NESTED)

TZS = [None, "Europe/Berlin", "CET-1CEST,M3.5.0,M10.5.0/3", "America/New_York", "EST5EDT,M3.2.0,M11.1.0", "Asia/Kathmandu", "UTC", "Pacific/Chatham"]
# 2021-03-28 01:00 UTC (EU switch forward), 2021-10-31 01:00 UTC (EU switch back; 00:00-02:00 UTC is the repeated local
# hour), 2021-03-14 07:00 UTC / 2021-11-07 06:00 UTC (US switches), an ordinary instant and one past 2038
INSTANTS = [1616893199, 1616893200, 1635640200, 1635641999, 1635642000, 1635643800, 1615705199, 1615705200, 1636261200, 1636264800, 1600000000, 2**31 + 7]


def set_tz(tz):
    if tz is None:
        os.environ.pop("TZ", None)
    else:
        os.environ["TZ"] = tz
    time.tzset()


def age(top):
    """give every entry below (and including) top an old mtime with a non-zero sub-second part"""
    paths = [top]
    for dp, dns, fns in os.walk(top):
        dns.sort()
        for n in sorted(dns + fns):
            paths.append(os.path.join(dp, n))
    for i, p in enumerate(paths):
        ns = INSTANTS[i % len(INSTANTS)] * 10**9 + (123456789 + i * 7919) % 10**9
        try:
            os.utime(p, ns=(ns + 1, ns), follow_symlinks=False)
        except OSError:
            pass


class World:
    n = 0

    def __init__(self, run, tree, tz=None):
        World.n += 1
        self.run = run
        self.tree = tree
        self.spec = TREES[tree] if isinstance(tree, str) else tree
        self.dir = os.path.realpath(os.path.join(run.tmp, f"w{World.n}"))
        self.root = os.path.join(self.dir, "t")
        self.cwd = os.path.join(self.dir, "cwd")
        self.ext = os.path.join(self.dir, "ext")
        self.tz = tz
        self.pl = None
        W.build(self.root, self.spec)
        W.build(self.cwd, {"unrelated.txt": "u"})
        W.build(self.ext, {"ign.txt": "*.bak\nA/deep/\n/c.txt\n!keep.bak\n", "target/x.bin": b"x", "existing/": "", "schema_copy/": ""})
        os.symlink("t", os.path.join(self.dir, "rl"))

    def clone(self):
        World.n += 1
        c = object.__new__(World)
        c.__dict__.update(self.__dict__)
        c.dir = os.path.realpath(os.path.join(self.run.tmp, f"w{World.n}"))
        shutil.copytree(self.dir, c.dir, symlinks=True)
        c.root, c.cwd, c.ext = (os.path.join(c.dir, x) for x in ("t", "cwd", "ext"))
        if self.pl:
            c.pl = os.path.join(c.dir, os.path.relpath(self.pl, self.dir))
        return c

    def files(self):
        return sorted(r for r, c in self.spec.items() if not r.endswith("/") and not isinstance(c, tuple) and os.path.isfile(os.path.join(self.root, r)))

    def dirs(self):
        return sorted({r.split("/")[0] for r in self.spec if "/" in r and os.path.isdir(os.path.join(self.root, r.split("/")[0]))})

    def find_pl(self):
        g = sorted(glob.glob(os.path.join(glob.escape(self.ext), "pl", "collection_*", "packinglist_*.mhl")))
        self.pl = g[-1] if g else None
        return self.pl


def spell(w, how, root=None):
    root = root or w.root
    if how == "abs":
        return root, None
    if how == "slash":
        return root + os.sep, None
    if how == "rel":
        return os.path.relpath(root, w.dir), w.dir
    if how == "dot":
        return ".", root
    if how == "dotdot":
        return os.path.join(root, "..", os.path.basename(root)), None
    if how == "symlink":
        return os.path.join(w.dir, "rl", os.path.relpath(root, w.root)) if root != w.root else os.path.join(w.dir, "rl"), None
    if how == "cwdrel":
        return os.path.relpath(root, w.cwd), w.cwd
    raise KeyError(how)


# ------------------------------------------------------------------------------------------------ frames and judging
def frame_ro():
    return {"kind": "ro"}


def frame_create(root, extra=(), cwd=None):
    """the histories in scope: all of them in folder mode; with -sf the histories that own a named file (or lie below a named
    folder) and the histories enclosing those, up to the root - a sibling history that receives nothing is outside the frame"""
    rr = os.path.realpath(root)
    hist = [rr] + ([os.path.join(rr, n) for n in W.nested_roots(rr)] if os.path.isdir(rr) else [])
    extra = list(extra)
    sel = [extra[i + 1] for i, a in enumerate(extra[:-1]) if a in ("-sf", "--single_file")]
    if sel:
        base = cwd or os.getcwd()
        paths = [os.path.realpath(os.path.dirname(q)) + os.sep + os.path.basename(q) if os.path.islink(q) else os.path.realpath(q)
                 for q in (os.path.normpath(x if os.path.isabs(x) else os.path.join(base, x)) for x in sel)]
        inside = lambda a, b: a == b or a.startswith(b.rstrip(os.sep) + os.sep)  # a at or below b
        hist = [h for h in hist if h == rr or any(inside(q, h) or inside(h, q) for q in paths)]
    return {"kind": "create", "root": rr, "asc": {os.path.join(h, "ascmhl") for h in hist}, "root_asc": os.path.join(rr, "ascmhl"), "root_asc_existed": os.path.lexists(os.path.join(rr, "ascmhl"))}


def frame_flatten(dest, cwd):
    d = dest if os.path.isabs(dest) else os.path.join(cwd or os.getcwd(), dest)
    d = os.path.realpath(os.path.normpath(d))
    return {"kind": "flatten", "dest": d, "dest_existed": os.path.lexists(d)}


def _desc(e):
    if e is None:
        return "absent"
    t, c, mt, mode = e
    if t == "f":
        return f"file[{len(c)} B, md5 {hashlib.md5(c).hexdigest()[:12]}, mtime_ns {mt}, mode {mode:o}]"
    if t == "l":
        return f"symlink[-> {c}, mtime_ns {mt}]"
    return f"dir[mtime_ns {mt}, mode {mode:o}]"


def chain_names(entry):
    """file names listed by a chain file given as snapshot entry; [] if absent, None if unreadable"""
    if entry is None:
        return []
    if entry[0] != "f":
        return None
    try:
        t = ET.fromstring(entry[1])
    except ET.ParseError:
        return None
    return [hl.findtext(W.NSD + "path") for hl in t.findall(W.NSD + "hashlist")]


def judge(run, cid, w, frame, cmdline, code, exc, before, after, rec, crashed=False):
    """compare the observed effects with the frame; returns the list of (what, rel) differences"""
    changes = W.diff_snap(before, after)
    kind = frame["kind"]
    head = f"`{cmdline}` (exit {code}{', ' + type(exc).__name__ if exc is not None else ''}{', killed' if crashed else ''})"
    reported = set()

    def bad(what, rel, wclass, expected):
        p = os.path.normpath(os.path.join(w.dir, rel))
        reported.add(p)
        run.violation(
            cid,
            f"{head} {what} {rel!r}: before {_desc(before.get(rel))}, after {_desc(after.get(rel))}; expected {expected}",
            wclass,
            inp={"cmd": cmdline, "path": rel, "change": what},
        )

    if kind == "ro":
        for what, rel in changes:
            bad(what, rel, f"readonly/{what}", "no difference at all (read-only command)")
    elif kind == "flatten":
        dest = frame["dest"]
        for what, rel in changes:
            p = os.path.normpath(os.path.join(w.dir, rel))
            if p == dest or p.startswith(dest + os.sep):
                continue
            if what == "mtime" and p == os.path.dirname(dest) and not frame["dest_existed"] and os.path.lexists(dest):
                continue
            in_hist = "ascmhl" in rel.split(os.sep)
            bad(what, rel, f"flatten/{'source-history' if in_hist else 'outside-destination'}/{what}", f"writes only below the destination {dest}")
    else:
        asc = frame["asc"]
        # the one permitted act outside the ascmhl folders: making the root's ascmhl folder where none existed (it may be
        # gone again after a failed run that cleaned up); the root's own mtime changes with it by necessity
        created_root_asc = not frame["root_asc_existed"] and (os.path.isdir(frame["root_asc"]) or any(ev == "os.mkdir" and p == frame["root_asc"] for ev, p, _, _ in rec))
        added_manifests = {}
        for what, rel in changes:
            p = os.path.normpath(os.path.join(w.dir, rel))
            name = os.path.basename(p)
            if p in asc:
                if what == "added" and p == frame["root_asc"] and after[rel][0] == "d" and not crashed and not any(k.startswith(rel + os.sep) for k in after):
                    # the folder may be created "where none exists" for the new manifest and chain; a run that ends (with
                    # any exit code) leaving just an empty ascmhl folder has added neither, and every later command then
                    # refuses the root (exit 32)
                    bad(what, rel, "create/empty-ascmhl-folder-left", "a new ascmhl folder only together with the manifest and chain file written into it")
                    continue
                if what == "mtime" or (what == "added" and p == frame["root_asc"] and after[rel][0] == "d"):
                    continue
                bad(what, rel, f"create/ascmhl-folder/{what}", "an ascmhl folder is only created in the root or gets entries added")
                continue
            if os.path.dirname(p) in asc:
                if what == "added":
                    if after[rel][0] == "f" and name == CHAIN:
                        continue
                    if after[rel][0] == "f" and MANIFEST_RE.match(name):
                        added_manifests.setdefault(os.path.dirname(p), []).append(name)
                        continue
                    if crashed and after[rel][0] == "f":
                        continue  # a killed run cannot tidy up; what can be asked of it is that it wrote only here
                    bad(what, rel, "create/left-behind", "only the new manifest and the chain file are left in an ascmhl folder")
                elif what == "removed":
                    if name.endswith(".tmp"):
                        continue
                    bad(what, rel, "create/removed-history-file", "nothing is removed from an ascmhl folder")
                else:
                    if name == CHAIN and after[rel][0] == "f":
                        continue
                    if crashed and not name.endswith(".mhl") and after[rel][0] == "f":
                        continue
                    bad(what, rel, f"create/altered-history-file/{what}", "only the chain file is rewritten")
                continue
            if what == "mtime" and p == frame["root"] and created_root_asc:
                continue
            in_asc = "ascmhl" in rel.split(os.sep)
            where = "foreign-ascmhl" if in_asc else ("media" if p.startswith(frame["root"] + os.sep) or p == frame["root"] else "outside-root")
            bad(what, rel, f"create/{where}/{what}", f"only the ascmhl folders {sorted(asc)} change")
        for d, names in added_manifests.items():
            if len(names) > 1:
                run.violation(cid, f"{head} added {len(names)} manifests to {d}: {sorted(names)}; expected one new manifest per history", "create/manifest-count", inp={"cmd": cmdline})
        if exc is None and not crashed:
            for d in asc:
                rel = os.path.relpath(os.path.join(d, CHAIN), w.dir)
                cb, ca = chain_names(before.get(rel)), chain_names(after.get(rel))
                if cb is None or ca is None:
                    continue
                new_in_chain = sorted(set(ca) - set(cb))
                got = sorted(added_manifests.get(d, []))
                if new_in_chain != got:
                    run.violation(
                        cid,
                        f"{head} in {d}: manifests added on disk {got}, generations added to the chain {new_in_chain}; expected exactly the new manifest(s)",
                        "create/manifest-vs-chain",
                        inp={"cmd": cmdline},
                    )
    # ---- the audit trail: modifying calls anywhere on the machine
    seen = set()
    for ev, p, extra, existed in rec:
        if "__pycache__" in p or p.endswith(".pyc"):
            continue
        key = (ev, p)
        if key in seen or p in reported:
            continue
        seen.add(key)
        if ev in ("subprocess.Popen", "os.system", "os.exec", "os.posix_spawn", "os.fork"):
            continue
        if not definite(ev, extra, existed):
            continue  # a call that cannot have changed anything by itself (the snapshots decide about writes through it)
        if kind == "ro":
            run.violation(cid, f"{head} made the modifying call {ev} on {p} (existed before: {existed}); expected none from a read-only command", f"readonly/call/{ev}", inp={"cmd": cmdline, "path": p})
            continue
        if kind == "flatten":
            ok = p == frame["dest"] or p.startswith(frame["dest"] + os.sep)
        else:
            ok = os.path.dirname(p) in frame["asc"] or p == frame["root_asc"]
        if ok:
            continue
        # outside the frame a scratch entry that is made and gone again is tolerated for the writing commands
        if existed:
            run.violation(cid, f"{head} made the modifying call {ev} on the existing path {p}, which is outside what the command may write", f"{kind}/call-outside/{ev}", inp={"cmd": cmdline, "path": p})
        elif os.path.lexists(p):
            run.violation(cid, f"{head} created {p} (call {ev}) and left it behind; it is outside what the command may write", f"{kind}/left-outside/{ev}", inp={"cmd": cmdline, "path": p})
    return changes


def observe(w, name, args, cwd=None):
    global _REC
    age(w.dir)
    before = W.snapshot(w.dir)
    rec = []
    _REC = rec
    try:
        code, out, exc = W.run(name, args, cwd=cwd)
    finally:
        _REC = None
    after = W.snapshot(w.dir)
    return code, out, exc, before, after, rec


def shown(name, args, cwd):
    s = " ".join([name] + [repr(str(a)) if (" " in str(a) or not str(a).isprintable()) else str(a) for a in args])
    return s + (f" [cwd {cwd}]" if cwd else "")


def act(run, cid, w, name, args, cwd=None, frame=None, key=None, force=None):
    """run one command; observed and judged if the case is wanted (a writing command is executed in any case, so that a
    replay of a later case sees the same world). returns (code, out, exc)"""
    if frame is None:
        frame = frame_ro()
    if force is None:
        force = frame["kind"] != "ro"
    cwd = cwd or w.cwd  # never the driver's own cwd: whatever a command drops into its cwd lands inside the observed world
    if not run.want(cid):
        if not force:
            return None
        return W.run(name, args, cwd=cwd)
    code, out, exc, before, after, rec = observe(w, name, args, cwd)
    changes = judge(run, cid, w, frame, shown(name, args, cwd), code, exc, before, after, rec)
    run.case(cid, key, sample={"case": cid, "exit": code, "differences": len(changes)})
    return code, out, exc


# ------------------------------------------------------------------------------------------------ history shapes
def edit_keep(path, data=None):
    """change the bytes of a file, keep size and mtime"""
    st = os.stat(path)
    with open(path, "rb") as f:
        old = f.read()
    new = data if data is not None else (bytes([old[0] ^ 0xFF]) + old[1:] if old else b"")
    with open(path, "wb") as f:
        f.write(new)
    os.utime(path, ns=(st.st_atime_ns, st.st_mtime_ns))


class Builder:
    """performs the preparing commands of a world; each is itself a judged case `build/<wid>/<n>-<label>`"""

    def __init__(self, run, w, wid, fmts):
        self.run, self.w, self.wid, self.fmts, self.i = run, w, wid, fmts, 0

    def create(self, label, extra=(), root=None, fmts=None):
        self.i += 1
        root = root or self.w.root
        cid = f"build/{self.wid}/{self.i}-{label}"
        args = [root] + (S.hargs(fmts) if fmts is not None else S.hargs(self.fmts)) + list(extra)
        return act(self.run, cid, self.w, "create", args, frame=frame_create(root), key=("build", self.wid, self.i), force=True)

    def flatten(self, label, dest):
        self.i += 1
        cid = f"build/{self.wid}/{self.i}-{label}"
        return act(self.run, cid, self.w, "flatten", [self.w.root, dest], frame=frame_flatten(dest, None), key=("build", self.wid, self.i), force=True)


def asc_of(w):
    return os.path.join(w.root, "ascmhl")


def h_none(b):
    pass


def h_g1(b):
    b.create("g1")


def h_mixed(b):
    w = b.w
    b.create("md5", fmts=["md5"])
    b.create("sha1+xxh64-n", ["-n"], fmts=["sha1", "xxh64"])
    if w.files():
        b.create("sf-c4", ["-sf", os.path.join(w.root, w.files()[0])], fmts=["c4"])
    b.create("md5+md5+c4-i", ["-i", "*.bak"], fmts=["md5", "md5", "c4"])


def h_failed(b):
    w = b.w
    b.create("g1")
    if w.files():
        edit_keep(os.path.join(w.root, w.files()[-1]))
    b.create("g2-fails")
    b.create("g3-after-failure", fmts=["xxh3"])


def h_g11(b):
    sets = S.format_sets("quick")
    for i in range(12):
        b.create(f"g{i + 1}", ["-n"] if i == 5 else [], fmts=sets[i % len(sets)])


def h_ignore(b):
    w = b.w
    W.build(w.root, {"x.bak": "bak", "keep.bak": "keep", "sub dir/y.bak": "bak2"})
    b.create("i-glob", ["-i", "*.txt"])
    b.create("ii-file", ["-ii", os.path.join(w.ext, "ign.txt")])
    b.create("i-negation", ["-i", "!a.txt", "-i", "sub dir/"])
    b.create("i-slash", ["-i", "/L1/L2", "-i", "Clips/sub/"])


def e_dirty(w):
    fs = w.files()
    if fs:
        edit_keep(os.path.join(w.root, fs[0]))
    if len(fs) > 1:
        os.remove(os.path.join(w.root, fs[1]))
    if len(fs) > 2:
        os.rename(os.path.join(w.root, fs[2]), os.path.join(w.root, fs[2] + ".renamed"))
    W.build(w.root, {"new file.bin": "new", "NewDir/n.txt": "n"})


def e_nochain(w):
    os.remove(os.path.join(asc_of(w), CHAIN))


def e_modmanifest(w):
    with open(W.manifests(w.root)[0], "ab") as f:
        f.write(b"\n")


def e_missingmanifest(w):
    os.remove(W.manifests(w.root)[0])


def e_garbagechain(w):
    with open(os.path.join(asc_of(w), CHAIN), "wb") as f:
        f.write(b"<ascmhldirectory")


def e_staletmp(w):
    W.build(asc_of(w), {"0003_t_2020-01-01_000000Z.mhl.tmp": "<hashlist", CHAIN + ".tmp": "<ascmhldirectory"})
    for nr in W.nested_roots(w.root):
        W.build(os.path.join(w.root, nr, "ascmhl"), {CHAIN + ".tmp": "junk"})


def e_junk(w):
    W.build(asc_of(w), {"notes.txt": "keep me", "._0001_t_2020-01-01_000000Z.mhl": "\x00\x05\x16\x07", "bad name.mhl": "<x/>", "sub/inner.txt": "i", ".DS_Store": "ds"})


def e_nestedgone(w):
    for nr in W.nested_roots(w.root)[:1]:
        shutil.rmtree(os.path.join(w.root, nr, "ascmhl"))


def e_emptyasc(w):
    os.makedirs(asc_of(w), exist_ok=True)


def h_g2(b):
    b.create("g1")
    b.create("g2", fmts=["md5", "sha1"])


HISTS = {
    "none": (h_none, None),
    "g1": (h_g1, None),
    "mixed": (h_mixed, None),
    "failed": (h_failed, None),
    "g11": (h_g11, None),
    "ignore": (h_ignore, None),
    "dirty": (h_g1, e_dirty),
    "nochain": (h_g2, e_nochain),
    "modmanifest": (h_g2, e_modmanifest),
    "missingmanifest": (h_g2, e_missingmanifest),
    "garbagechain": (h_g2, e_garbagechain),
    "staletmp": (h_g2, e_staletmp),
    "junk": (h_g2, e_junk),
    "nestedgone": (h_g2, e_nestedgone),
    "emptyasc": (h_none, e_emptyasc),
}
CORE_HISTS = ["none", "g1", "dirty"]


def build_world(run, wid, tree, nested, hist, fmts, tz):
    set_tz(tz)
    w = World(run, tree, tz)
    b = Builder(run, w, wid, fmts)
    for nr in nested:
        b.create("nested-" + nr.replace("/", ":"), root=os.path.join(w.root, nr))
    recipe, edit = HISTS[hist]
    recipe(b)
    if os.path.isdir(asc_of(w)):
        b.flatten("packinglist", os.path.join(w.ext, "pl"))
    else:
        # a packing list of an identical tree sealed elsewhere (not judged, it only provides the option value)
        src = os.path.join(w.ext, "plsrc", "t")
        shutil.copytree(w.root, src, symlinks=True)
        W.run("create", [src, "-h", "md5"])
        W.run("flatten", [src, os.path.join(w.ext, "pl")])
    w.find_pl()
    if edit:
        edit(w)
    return w


# ------------------------------------------------------------------------------------------------ operations
def pick(ext, stride, salt):
    """all of the extended variants (stride 1), none (0), or every stride-th one starting at a world-specific offset"""
    if stride == 1:
        return ext
    if stride == 0:
        return []
    return [e for i, e in enumerate(ext) if (i + salt) % stride == 0]


def ro_ops(w, stride, salt):
    """(op id, command, args, cwd) of the read-only commands on this world"""
    R = w.root
    fs, ds = w.files(), w.dirs()
    f0 = fs[0] if fs else None
    nest = W.nested_roots(R)
    ign = os.path.join(w.ext, "ign.txt")
    ops = [
        ("verify", "verify", [R], None),
        ("verify-dh", "verify", [R, "-dh"], None),
        ("diff", "diff", [R], None),
        ("info", "info", [R], None),
        ("info-v", "info", [R, "-v"], None),
    ]
    if w.pl:
        ops.append(("verify-pl", "verify", [R, "-pl", w.pl], None))
    if f0:
        ops.append(("verify-sf-rel", "verify", [R, "-sf", f0], None))
        ops.append(("info-sf-noroot", "info", ["-sf", f0], R))
        ops.append(("hash", "hash", [os.path.join(R, f0), "-h", "md5"], None))
    ms = W.manifests(R)
    if ms:
        ops.append(("xsd-manifest", "xsd", [ms[-1]], REPO))
    core, ops = ops, []
    ops += [
        ("verify-v", "verify", [R, "-v"], None),
        ("verify-sf-missing", "verify", [R, "-sf", "no/such file"], None),
        ("verify-dh-v-md5", "verify", [R, "-dh", "-v", "-h", "md5"], None),
        ("verify-dh-co", "verify", [R, "-dh", "-co"], None),
        ("verify-dh-ro-c4", "verify", [R, "-dh", "-ro", "-h", "c4"], None),
        ("verify-dh-co-ro", "verify", [R, "-dh", "-co", "-ro", "-v"], None),
        ("verify-dh-i", "verify", [R, "-dh", "-i", "*.txt"], None),
        ("verify-i", "verify", [R, "-i", "*.txt", "-i", "*.txt"], None),
        ("verify-i-dir", "verify", [R, "-i", "A/", "-i", "/Clips", "-v"], None),
        ("verify-ii", "verify", [R, "-ii", ign], None),
        ("verify-ii-rel", "verify", [R, "-ii", os.path.join("..", "ext", "ign.txt")], w.cwd),
        ("verify-badopt", "verify", [R, "--no-such-option"], None),
        ("verify-noroot", "verify", [os.path.join(w.dir, "missing")], None),
        ("diff-v", "diff", [R, "-v"], None),
        ("diff-i", "diff", [R, "-i", "*.bin", "-v"], None),
        ("diff-ii", "diff", [R, "-ii", ign], None),
        ("info-noargs", "info", [], w.cwd),
        ("xsd-garbage", "xsd", [ign], REPO),
        ("hash-dir", "hash", [R, "-h", "md5"], None),
        ("hash-nofile", "hash", [os.path.join(R, "no such"), "-h", "md5"], None),
    ]
    for how in ("slash", "rel", "dot", "dotdot", "symlink", "cwdrel"):
        a, cwd = spell(w, how)
        ops.append((f"verify@{how}", "verify", [a], cwd))
        ops.append((f"verify-dh@{how}", "verify", [a, "-dh"], cwd))
        ops.append((f"diff@{how}", "diff", [a], cwd))
        ops.append((f"info@{how}", "info", [a, "-v"], cwd))
    if w.pl:
        ops.append(("verify-pl-v", "verify", [R, "-pl", w.pl, "-v", "-i", "*.txt"], None))
        ops.append(("verify-pl-rel", "verify", [".", "-pl", os.path.relpath(w.pl, R)], R))
        ops.append(("xsd-packinglist", "xsd", [w.pl, "-xsd", os.path.join(REPO, "xsd", "ASCMHL.xsd")], w.cwd))
        if f0:
            ops.append(("verify-pl-sf", "verify", [R, "-pl", w.pl, "-sf", f0], None))
    if f0:
        ops += [
            ("verify-sf-abs", "verify", [R, "-sf", os.path.join(R, f0), "-v"], None),
            ("verify-sf-cwd", "verify", [os.path.relpath(R, w.cwd), "-sf", f0], w.cwd),
            ("info-sf-root-v", "info", [R, "-sf", os.path.join(R, f0), "-v"], None),
            ("info-sf-two", "info", [R, "-sf", os.path.join(R, f0), "-sf", os.path.join(R, fs[-1])], None),
            ("info-sf-rel", "info", ["t", "-sf", os.path.join("t", f0)], w.dir),
        ]
        for fmt in W.FORMATS:
            ops.append((f"hash-{fmt}", "hash", [os.path.join(R, fs[-1]), "-h", fmt], None))
        ops.append(("hash-rel", "hash", [f0, "-h", "c4"], R))
        ops.append(("hash-nofmt", "hash", [os.path.join(R, f0)], None))
    for r, c in w.spec.items():
        if isinstance(c, tuple):
            ops.append((f"hash-link-{r}", "hash", [os.path.join(R, r), "-h", "xxh64"], None))
    if ds:
        ops.append(("verify-subdir", "verify", [os.path.join(R, ds[0])], None))
        ops.append(("verify-sf-dir", "verify", [R, "-sf", ds[0]], None))
        ops.append(("info-subdir", "info", [os.path.join(R, ds[0])], None))
    for nr in nest[:2]:
        ops.append((f"verify-nested-{nr.replace(os.sep, ':')}", "verify", [os.path.join(R, nr)], None))
        ops.append((f"verify-dh-nested-{nr.replace(os.sep, ':')}", "verify", [os.path.join(R, nr), "-dh", "-v"], None))
        ops.append((f"diff-nested-{nr.replace(os.sep, ':')}", "diff", [".", "-v"], os.path.join(R, nr)))
        ops.append((f"info-nested-{nr.replace(os.sep, ':')}", "info", [os.path.join(R, nr), "-v"], None))
    if ms:
        ops.append(("xsd-manifest-first", "xsd", [ms[0]], REPO))
        ops.append(("xsd-chain", "xsd", [os.path.join(R, "ascmhl", CHAIN), "-df"], REPO))
        ops.append(("xsd-chain-wrong-schema", "xsd", [os.path.join(R, "ascmhl", CHAIN)], REPO))
        ops.append(("xsd-relative-schema-missing", "xsd", [ms[-1]], w.cwd))
        ops.append(("xsd-explicit", "xsd", [os.path.relpath(ms[-1], w.cwd), "-xsd", os.path.join(REPO, "xsd", "ASCMHL.xsd")], w.cwd))
    return core + pick(ops, stride, salt)


def create_ops(w, stride, salt):
    """(op id, args after the root, root spelling, root (None = world root), cwd override)"""
    R = w.root
    fs, ds = w.files(), w.dirs()
    f0 = fs[0] if fs else None
    ign = os.path.join(w.ext, "ign.txt")
    ops = [("plain", [], "abs", None), ("md5-v", ["-h", "md5", "-v"], "abs", None)]
    if f0:
        ops.append(("sf", ["-h", "md5", "-sf", os.path.join(R, f0)], "abs", None))
    # a create that aborts while writing (lxml refuses the control character): must leave nothing behind, in every world
    ops.append(("comment-control-char", ["-h", "md5", "--comment", "bell\x07"], "abs", None))
    core, ops = ops, []
    ops += [
        ("n", ["-n", "-h", "xxh64"], "abs", None),
        ("dr", ["-dr", "-h", "md5"], "abs", None),
        ("dr-n-v", ["-dr", "-n", "-v"], "abs", None),
        ("h-repeated", ["-h", "md5", "-h", "md5"], "abs", None),
        ("h-all", S.hargs(W.FORMATS), "abs", None),
        ("i-glob", ["-i", "*.txt", "-i", "*.txt"], "abs", None),
        ("i-dir", ["-i", "A/", "-i", "Clips/sub/", "-i", "/L1/L2"], "abs", None),
        ("i-negation", ["-i", "*.txt", "-i", "!a.txt"], "abs", None),
        ("ii", ["-ii", ign, "-h", "c4"], "abs", None),
        ("ii-rel", ["-ii", os.path.join("..", "ext", "ign.txt")], "cwdrel", None),
        ("author", ["--author_name", "A <&> Ü", "--author_email", "a@b.c", "--author_phone", "+1 2", "--author_role", "DIT", "--location", "Set   7", "--comment", "café 'q' \"d\" <x>"], "abs", None),
        ("badformat", ["-h", "sha512"], "abs", None),
        ("badoption", ["--frobnicate"], "abs", None),
        ("sf-missing", ["-sf", os.path.join(R, "no", "such")], "abs", None),
        ("ii-missing", ["-ii", os.path.join(w.ext, "no-such-file")], "abs", None),
    ]
    for how in ("slash", "rel", "dot", "dotdot", "symlink", "cwdrel"):
        ops.append((f"plain@{how}", ["-h", "md5"], how, None))
    if f0:
        ops += [
            ("sf-twice", ["-sf", os.path.join(R, f0), "-sf", os.path.join(R, f0), "-h", "c4"], "abs", None),
            ("sf-rel", ["-sf", f0, "-h", "md5", "-v"], "dot", None),
            ("sf-cwdrel", ["-sf", os.path.join(os.path.relpath(R, w.cwd), fs[-1])], "cwdrel", None),
            ("sf-i", ["-sf", os.path.join(R, f0), "-i", "*.txt", "-h", "sha1"], "abs", None),
            ("sf-all", sum((["-sf", os.path.join(R, f)] for f in fs), []), "abs", None),
        ]
    if ds:
        ops.append(("sf-dir", ["-sf", os.path.join(R, ds[0]), "-h", "md5"], "abs", None))
        ops.append(("sf-dir-and-file", ["-sf", os.path.join(R, ds[0])] + (["-sf", os.path.join(R, f0)] if f0 else []), "abs", None))
        ops.append(("sf-dir-rel-first", ["-sf", ds[0], "-h", "md5"], "dot", None))
        ops.append(("sf-dir-rel-last", ["-sf", ds[-1], "-h", "md5"], "dot", None))
        ops.append(("sf-dir-rel-parent-cwd", ["-sf", os.path.join("t", ds[-1]) + os.sep, "-h", "c4"], "rel", None))
        ops.append(("subdir-as-root", ["-h", "md5"], "abs", os.path.join(R, ds[0])))
        ops.append(("subdir-as-root@dot", [], "dot", os.path.join(R, ds[-1])))
    for nr in W.nested_roots(R)[:2]:
        ops.append((f"nested-as-root-{nr.replace(os.sep, ':')}", ["-h", "md5", "-h", "c4"], "abs", os.path.join(R, nr)))
    for r, c in w.spec.items():
        if isinstance(c, tuple):
            ops.append((f"sf-link-{r}", ["-sf", os.path.join(R, r), "-h", "md5"], "abs", None))
    return core + pick(ops, stride, salt)


def flatten_ops(w, stride, salt):
    """(op id, root spelling, destination argument, cwd override or None, extra args)"""
    ops = [("new-dest", "abs", os.path.join(w.ext, "flat_new"), None, []), ("existing-dest", "abs", os.path.join(w.ext, "existing"), None, ["-v"])]
    core, ops = ops, []
    ops += [
        ("dest-slash", "abs", os.path.join(w.ext, "flat_slash") + os.sep, None, []),
        ("dest-rel-cwd", "abs", "out", w.cwd, []),
        ("dest-rel-root-rel", "cwdrel", os.path.join("sub", "..", "out2"), None, ["-v"]),
        ("dest-dot", "abs", ".", w.cwd, []),
        ("dest-inside-root", "abs", os.path.join(w.root, "flat_inside"), None, []),
        ("dest-parent-missing", "abs", os.path.join(w.ext, "no", "such", "out"), None, []),
        ("dest-is-file", "abs", os.path.join(w.ext, "ign.txt"), None, []),
        ("n-i", "abs", os.path.join(w.ext, "flat_ni"), None, ["-n", "-i", "*.txt", "-ii", os.path.join(w.ext, "ign.txt")]),
        ("author", "abs", os.path.join(w.ext, "flat_author"), None, ["--author_name", "N", "--author_email", "e@x", "--author_phone", "1", "--author_role", "r", "--location", "l", "--comment", "c <&>"]),
        ("comment-control-char", "abs", os.path.join(w.ext, "flat_ctrl"), None, ["--comment", "bell\x07"]),
        ("root@dot", "dot", os.path.join("..", "ext", "flat_dot"), None, []),
        ("root@symlink", "symlink", os.path.join(w.ext, "flat_sym"), None, []),
        ("badoption", "abs", os.path.join(w.ext, "flat_bad"), None, ["--frobnicate"]),
    ]
    for nr in W.nested_roots(w.root)[:1]:
        ops.append((f"nested-root-{nr.replace(os.sep, ':')}", "nested:" + nr, os.path.join(w.ext, "flat_nested"), None, []))
    return core + pick(ops, stride, salt)


def run_world(run, wid, tree, nested, hist, fmts, tz, stride, salt):
    """all cases of one prepared world"""
    prefix_ids = [f"{k}/{wid}/" for k in ("build", "ro", "create", "flatten", "after")]
    if run.only is not None and not any(run.only.startswith(p) for p in prefix_ids):
        return
    base = build_world(run, wid, tree, nested, hist, fmts, tz)
    nontrivial = bool(base.spec) or hist != "none"
    # ---- read-only commands, one after the other on the same world (each must leave it as it was)
    for op, name, args, cwd in ro_ops(base, stride, salt):
        cid = f"ro/{wid}/{op}"
        act(run, cid, base, name, args, cwd=cwd, frame=frame_ro(), key=("ro", tree, tuple(nested), hist, op) if nontrivial else None)
    # ---- create variants, each on its own copy of the world, followed by a second create and a verify on that copy
    for op, extra, how, root in create_ops(base, stride, salt + 1):
        cid = f"create/{wid}/{op}"
        cid2 = f"after/{wid}/{op}"
        if not (run.want(cid) or run.only is not None and run.only.startswith(cid2)):
            continue
        w = base.clone()
        root = os.path.join(w.dir, os.path.relpath(root, base.dir)) if root else w.root
        extra = [a.replace(base.dir, w.dir) if isinstance(a, str) else a for a in extra]
        arg, cwd = spell(w, how, root)
        act(run, cid, w, "create", [arg] + extra, cwd=cwd, frame=frame_create(root, extra, cwd or w.cwd), key=("create", tree, tuple(nested), hist, op) if nontrivial else None, force=True)
        if stride == 1 or op == "plain":
            act(run, cid2 + "/create-again", w, "create", [root, "-h", "md5"], frame=frame_create(root), key=("after-create", tree, tuple(nested), hist, op), force=True)
            act(run, cid2 + "/verify", w, "verify", [root], frame=frame_ro(), key=("after-verify", tree, tuple(nested), hist, op))
    # ---- flatten variants
    for op, how, dest, cwd_over, extra in flatten_ops(base, stride, salt + 2):
        cid = f"flatten/{wid}/{op}"
        if not (run.want(cid) or run.want(cid + "/twice")):
            continue
        w = base.clone()
        if how.startswith("nested:"):
            arg, cwd = os.path.join(w.root, how[7:]), None
        else:
            arg, cwd = spell(w, how)
        if cwd_over:
            cwd = os.path.join(w.dir, os.path.relpath(cwd_over, base.dir))
        cwd = cwd or w.cwd
        dest = dest.replace(base.dir, w.dir)
        extra = [a.replace(base.dir, w.dir) for a in extra]
        act(run, cid, w, "flatten", [arg, dest] + extra, cwd=cwd, frame=frame_flatten(dest, cwd), key=("flatten", tree, tuple(nested), hist, op) if nontrivial else None)
        if op in ("new-dest", "dest-rel-cwd"):
            act(run, cid + "/twice", w, "flatten", [arg, dest] + extra, cwd=cwd, frame=frame_flatten(dest, cwd), key=("flatten2", tree, tuple(nested), hist, op))
    shutil.rmtree(base.dir, ignore_errors=True)


# ------------------------------------------------------------------------------------------------ killed commands
CHILD = r"""
import sys, os, json, builtins
k = int(sys.argv[1]); spec = json.loads(sys.argv[2])
sys.path.insert(0, spec["repo"])
from ascmhl import commands
events = []
armed = [False]
def tick(what):
    if not armed[0]:
        return
    events.append(what)
    if len(events) == k:
        os._exit(77)
WF = os.O_WRONLY | os.O_RDWR | os.O_APPEND | os.O_CREAT | os.O_TRUNC
def hook(ev, a):
    if ev == "open":
        if isinstance(a[2], int) and a[2] & WF and "__pycache__" not in str(a[0]):
            tick("open")
    elif ev in ("os.mkdir", "os.rename", "os.remove", "os.rmdir", "os.utime", "os.chmod", "os.truncate", "os.symlink", "os.link"):
        tick(ev)
sys.addaudithook(hook)
_open = builtins.open
class WProxy:
    def __init__(self, f):
        self.__dict__["_f"] = f
    def write(self, b):
        tick("write")
        r = self._f.write(b)
        self._f.flush()
        return r
    def __getattr__(self, n):
        return getattr(self._f, n)
    def __enter__(self):
        return self
    def __exit__(self, *a):
        return self._f.__exit__(*a)
def wopen(file, mode="r", *a, **kw):
    f = _open(file, mode, *a, **kw)
    if any(c in mode for c in "wax+"):
        return WProxy(f)
    return f
builtins.open = wopen
cmd = {"create": commands.create, "flatten": commands.flatten, "verify": commands.verify}[spec["name"]]
if spec.get("cwd"):
    os.chdir(spec["cwd"])
armed[0] = True
code = 0
try:
    cmd.main(args=spec["args"], standalone_mode=True)
except SystemExit as e:
    code = e.code if isinstance(e.code, int) else 1
except BaseException as e:
    code = 1
armed[0] = False
sys.stderr.write("EVENTS " + json.dumps(events) + "\n")
sys.stderr.flush()
os._exit(code or 0)
"""


def child(name, args, cwd, k):
    spec = json.dumps({"repo": REPO, "name": name, "args": [str(a) for a in args], "cwd": cwd})
    env = dict(os.environ)
    r = subprocess.run([sys.executable, "-c", CHILD, str(k), spec], env=env, stdout=subprocess.PIPE, stderr=subprocess.PIPE, cwd=cwd or None)
    events = None
    for line in r.stderr.decode("utf8", "replace").splitlines():
        if line.startswith("EVENTS "):
            events = json.loads(line[7:])
    return r.returncode, events


def crash_part(run, rnd):
    scenarios = [
        # id, tree, nested, prior generations, command, args builder
        ("create-first", "flat", [], 0, "create", lambda w: [w.root, "-h", "md5"]),
        ("create-nested", "deep", ["A"], 1, "create", lambda w: [w.root, "-h", "md5", "-h", "c4"]),
        ("flatten", "deep", ["A"], 1, "flatten", lambda w: [w.root, os.path.join(w.ext, "crashdest")]),
    ]
    limit = {"create-first": 8, "create-nested": 14, "flatten": 6}
    if run.tier == "thorough":
        scenarios += [
            ("create-3levels", "levels", ["L1/L2/L3", "L1/L2", "L1"], 2, "create", lambda w: [w.root, "-h", "xxh64"]),
            ("create-sf", "prefix", ["Clips"], 1, "create", lambda w: [w.root, "-h", "md5", "-sf", os.path.join(w.root, "Clips", "x.mov"), "-sf", os.path.join(w.root, "Clips.txt")]),
            ("create-names", "names", [S.NFD], 1, "create", lambda w: ["t", "-h", "md5"]),
        ]
        limit = {}
    for sid, tree, nested, prior, name, mk in scenarios:
        if run.only is not None and not run.only.startswith(f"crash/{sid}/"):
            continue
        set_tz(None)
        base = World(run, tree)
        for nr in nested:
            W.run("create", [os.path.join(base.root, nr), "-h", "md5"])
        for _ in range(prior):
            W.run("create", [base.root, "-h", "md5"])
        cwd = base.dir if sid == "create-names" else None
        # count the events of an undisturbed run on a copy
        probe = base.clone()
        code0, events = child(name, mk(probe), probe.dir if cwd else probe.cwd, 0)
        shutil.rmtree(probe.dir, ignore_errors=True)
        if not events:
            run.violation(f"crash/{sid}/0", f"undisturbed `{name}` in a subprocess reported no file-system event (exit {code0})", "crash/harness")
            continue
        ks = list(range(1, len(events) + 1))
        if sid in limit and len(ks) > limit[sid]:
            structural = [i + 1 for i, e in enumerate(events) if e != "write"]
            near = sorted(set(structural + [min(len(events), i + 1) for i in structural]))
            rest = [k for k in ks if k not in near]
            rnd.shuffle(rest)
            ks = sorted((near + rest)[: limit[sid]]) if len(near) < limit[sid] else sorted(rnd.sample(near, limit[sid]))
        if run.only is not None:  # a replay names its kill point itself (it need not be in this tier's sample)
            m = re.match(rf"crash/{re.escape(sid)}/(\d+)", run.only)
            ks = [int(m.group(1))] if m and 1 <= int(m.group(1)) <= len(events) else []
        jobs = []
        for k in ks:
            cid = f"crash/{sid}/{k}"
            if not (run.want(cid) or (run.only or "").startswith(cid + "/")):
                continue
            w = base.clone()
            age(w.dir)
            fr = frame_create(w.root) if name == "create" else frame_flatten(mk(w)[1], None)
            jobs.append((k, cid, w, fr, W.snapshot(w.dir)))
        with concurrent.futures.ThreadPoolExecutor(max_workers=min(8, os.cpu_count() or 2)) as ex:
            results = list(ex.map(lambda j: child(name, mk(j[2]), j[2].dir if cwd else j[2].cwd, j[0]), jobs))
        for (k, cid, w, fr, before), (code, ev) in zip(jobs, results):
            after = W.snapshot(w.dir)
            if run.want(cid):
                changes = judge(run, cid, w, fr, shown(name, mk(w), None) + f" killed at file-system event {k} ({events[k - 1]})", code, None, before, after, [], crashed=True)
                run.case(cid, ("crash", sid, k), sample={"case": cid, "exit": code, "event": events[k - 1], "differences": len(changes)})
                if code != 77:
                    run.violation(cid, f"the subprocess was to be killed at event {k} but exited {code}", "crash/harness")
            # the next commands on the interrupted world
            key = ("after-crash", sid, k)
            act(run, cid + "/verify", w, "verify", [w.root], frame=frame_ro(), key=key + ("verify",))
            act(run, cid + "/info", w, "info", [w.root, "-v"], frame=frame_ro(), key=key + ("info",))
            if run.tier == "thorough":
                act(run, cid + "/verify-dh", w, "verify", [w.root, "-dh"], frame=frame_ro(), key=key + ("verify-dh",))
                act(run, cid + "/diff", w, "diff", [w.root], frame=frame_ro(), key=key + ("diff",))
                d2 = os.path.join(w.ext, "after_crash")
                act(run, cid + "/flatten", w, "flatten", [w.root, d2], frame=frame_flatten(d2, None), key=key + ("flatten",), force=True)
            act(run, cid + "/create", w, "create", [w.root, "-h", "md5"], frame=frame_create(w.root), key=key + ("create",), force=True)
            if run.tier == "thorough":
                act(run, cid + "/create-2", w, "create", [w.root, "-h", "sha1", "-v"], frame=frame_create(w.root), key=key + ("create-2",))
            shutil.rmtree(w.dir, ignore_errors=True)
        shutil.rmtree(base.dir, ignore_errors=True)


# ------------------------------------------------------------------------------------------------ special worlds
def special_part(run):
    """names that cannot be written as XML text (control characters): create fails, and must still leave nothing"""
    for sid, tree, args in [
        ("control-char-name", {"a\x01b.txt": "x", "ok.txt": "y"}, ["-h", "md5"]),
        ("control-char-dir", {"d\x1f/x.txt": "x"}, ["-h", "md5", "-n"]),
        ("control-char-name-second-generation", {"ok.txt": "y"}, ["-h", "md5"]),
    ]:
        cid = f"special/{sid}/create"
        if run.only is not None and not run.only.startswith(f"special/{sid}/"):
            continue
        set_tz(None)
        w = World(run, tree)
        if sid.endswith("second-generation"):
            W.run("create", [w.root, "-h", "md5"])
            W.build(w.root, {"late\x02.bin": "z"})
        act(run, cid, w, "create", [w.root] + args, frame=frame_create(w.root), key=("special", sid), force=True)
        act(run, f"special/{sid}/verify", w, "verify", [w.root], frame=frame_ro(), key=("special", sid, "verify"))
        act(run, f"special/{sid}/info", w, "info", [w.root], frame=frame_ro(), key=("special", sid, "info"))
        act(run, f"special/{sid}/create-sf", w, "create", [w.root, "-h", "md5", "-sf", os.path.join(w.root, "ok.txt" if "ok.txt" in tree else "d\x1f")], frame=frame_create(w.root), key=("special", sid, "sf"))
        shutil.rmtree(w.dir, ignore_errors=True)


# ------------------------------------------------------------------------------------------------ plan
def plan(run, rnd):
    """(world id, tree, nested, hist, fmts, tz, stride, salt): stride 1 = every option variant, k > 1 = the core variants plus
    every k-th extended variant (offset by the world number, so that across the worlds every variant meets many shapes)"""
    fsets = S.format_sets(run.tier)
    out = []
    seen = set()

    def add(tree, ni, hist, stride):
        if (tree, ni, hist) in seen or (hist == "nestedgone" and not NESTED[tree][ni]):
            return
        seen.add((tree, ni, hist))
        n = len(out)
        out.append((f"{tree}.{ni}.{hist}", tree, NESTED[tree][ni], hist, fsets[n % len(fsets)], TZS[n % len(TZS)], stride, n))

    rich = [("deep", 3), ("prefix", 2), ("levels", 1), ("names", 2), ("flat", 0)]
    if run.tier == "thorough":
        for tree, ni in rich:
            for hist in ("g1", "dirty", "mixed"):
                add(tree, ni, hist, 1)
        for tree, ni in rich:
            for hist in HISTS:
                add(tree, ni, hist, 3)
        for tree in TREES:
            for ni in range(len(NESTED[tree])):
                for hist in CORE_HISTS + ["failed", "junk"]:
                    add(tree, ni, hist, 5)
        return out
    add("deep", 3, "mixed", 1)
    for i, hist in enumerate(HISTS):
        tree, ni = rich[i % len(rich)]
        add(tree, ni, hist, 9)
    for tree in TREES:
        add(tree, len(NESTED[tree]) - 1, "g1" if tree not in ("emptyfolder", "single") else "none", 9)
    return out


def main():
    run = Run(
        "C14",
        rule="case = one command run (command, option combination, root/option path spelling, cwd) on one prepared world "
        "(tree, nested-history placement, history shape, format set, time zone), observed between two snapshots of the whole "
        "world (type, bytes, mtime_ns, mode of every entry incl. cwd, option files, destination, symlink targets) plus an audit "
        "trail of every modifying file-system call; the preparing creates/flattens are cases too; non-trivial = distinct "
        "(command kind, tree, nesting, history shape, option variant) on a world with at least one entry or a history; "
        "crash cases = (scenario, index of the file-system event the subprocess is killed at) followed by the next commands",
        bound="13 trees (<= 9 entries, depth <= 4; empty tree, empty dirs, empty file, files of 2^20-1/2^20/2^20+1 bytes, names with "
        "spaces / NFC / NFD / XML-special / U+2028 / control characters, prefix siblings, case pairs, ascmhl look-alikes, "
        "symlinks to file / dir inside / dir outside / dangling), <= 3 nested histories (3 levels), 15 history shapes (none, 1, "
        "mixed formats with -n and -sf, failed generation, 12 generations, ignore patterns incl. -ii / negation / slashes, edited "
        "tree with mtime+size preserved, missing/garbage chain, modified/missing manifest, stale .tmp, junk in ascmhl, deleted "
        "nested ascmhl, empty ascmhl), 8 TZ values, ~80 read-only / ~45 create / ~17 flatten option variants, root spelled "
        "abs / trailing slash / relative / '.' / with '..' / via symlink / relative to a foreign cwd; kills at up to 14 (quick) "
        "or all (thorough) file-system events of create and flatten",
    )
    sys.addaudithook(_hook)
    from ascmhl import commands  # noqa: F401  (imported before any command is observed)

    rnd = random.Random(run.seed)
    old_tz = os.environ.get("TZ")
    try:
        for wid, tree, nested, hist, fmts, tz, stride, salt in plan(run, rnd):
            run_world(run, wid, tree, nested, hist, fmts, tz, stride, salt)
        special_part(run)
        crash_part(run, rnd)
    finally:
        set_tz(old_tz)
    run.finish()


if __name__ == "__main__":
    main()
