"""C13 bounded part: the same tree (names, contents, modification times), sealed under the same (frozen) clock by the
same sequence of commands, must give byte-identical ascmhl folders wherever the root lies, however the root is spelled
and in whatever order the OS enumerates directories; a sealed tree copied anywhere verifies with exit 0.

Oracle = the statement itself, used differentially: one reference run (neutral location, absolute spelling, OS order)
against runs that differ from it in exactly the dimensions the statement quantifies over (location, spelling of the
root, enumeration order).  Nothing is taken from the implementation: the clock is frozen from outside (freezegun), file
and directory mtimes are set from outside (os.utime), enumeration order is permuted from outside by wrapping
os.listdir / os.scandir / os.walk, the outputs are compared as raw bytes.
"""
import datetime
import math
import os
import random
import re
import shutil
import time
import zlib

from . import scen as S
from . import world as W
from .common import Run

REAL_LISTDIR, REAL_SCANDIR, REAL_WALK = os.listdir, os.scandir, os.walk
NAME = "t"  # basename of the root at every location but the 'other name' ones
T0 = datetime.datetime(2024, 3, 10, 12, 0, 0, 250000)
BASE_MTIME = 1_600_000_000
M = 1 << 20


# ------------------------------------------------------------------------------------------- enumeration order
class _Scan:
    def __init__(self, entries):
        self._it = iter(entries)

    def __iter__(self):
        return self

    def __next__(self):
        return next(self._it)

    def close(self):
        self._it = iter(())

    def __enter__(self):
        return self

    def __exit__(self, *a):
        self.close()


class Order:
    """context manager: while active, every directory enumeration made through os.listdir / os.scandir / os.walk
    comes back in the order `mode` (a function of the set of names only)"""

    def __init__(self, mode, seed=0):
        self.mode, self.seed = mode, seed

    def perm(self, names, where):
        names = list(names)
        base = sorted(names)
        n, m = len(base), self.mode
        if m == "os" or n < 2:
            return names
        if m == "sorted":
            return base
        if m == "rev":
            return base[::-1]
        if m == "rot":
            return base[1:] + base[:1]
        if m == "half":
            return base[n // 2 :] + base[: n // 2]
        if m == "oddeven":
            return base[1::2] + base[0::2]
        if m.startswith("shuf"):
            random.Random(f"{self.seed}|{m}|{os.path.basename(str(where))}|{n}").shuffle(base)
            return base
        if m.startswith("perm"):
            k = int(m[4:]) % math.factorial(n)
            out = []
            for i in range(n, 0, -1):
                j, k = divmod(k, math.factorial(i - 1))
                out.append(base.pop(j))
            return out
        raise ValueError(m)

    def _listdir(self, path="."):
        return self.perm(REAL_LISTDIR(path), path)

    def _scandir(self, path="."):
        with REAL_SCANDIR(path) as it:
            ents = {e.name: e for e in it}
        return _Scan([ents[n] for n in self.perm(list(ents), path)])

    def _walk(self, top, topdown=True, onerror=None, followlinks=False):
        for dp, dns, fns in REAL_WALK(top, topdown, onerror, followlinks):
            dns[:] = self.perm(dns, dp)  # in place: pruning done by the caller still reaches the real walk
            fns[:] = self.perm(fns, dp)
            yield dp, dns, fns

    def __enter__(self):
        if self.mode != "os":
            os.listdir, os.scandir, os.walk = self._listdir, self._scandir, self._walk
        return self

    def __exit__(self, *a):
        os.listdir, os.scandir, os.walk = REAL_LISTDIR, REAL_SCANDIR, REAL_WALK


# ------------------------------------------------------------------------------------------- trees
EXTRA_TREES = {
    # many siblings whose sorted order differs from most natural orders (case, digits, NFC/NFD, prefixes)
    "wide": {
        "f10": "10",
        "f2": "2",
        "F1": "1",
        "f1": "1b",
        "\u00e9": "nfc",
        "e\u0301": "nfd",
        "a/x": "ax",
        "a.b/x": "abx",
        "a b/x": "a bx",
        "a-/x": "a-x",
        "Z/y": "zy",
        "_/y": "_y",
    },
    # file symlink inside the tree (relative target)
    "links": {"real/f.bin": "x", "flnk.bin": ("link", "real/f.bin"), "real/again.bin": ("link", "f.bin")},
    # sibling histories whose names sort differently from their creation order
    "siblings": {"b/1": "1", "a/2": "2", "c/sub/3": "3", "B/4": "4", "top": "5"},
}
EXTRA_NESTED = {
    "wide": [[], ["a", "a.b", "Z"]],
    "links": [[], ["real"]],
    "siblings": [["c/sub", "b", "a"], ["b", "B", "a", "c"]],
}
BIG_TREE = {"big/below.bin": b"\x01" * (M - 1), "big/at.bin": b"\x02" * M, "big/above.bin": b"\x03" * (M + 1), "empty.bin": b""}


def tree_spec(tree):
    if tree == "big":
        return BIG_TREE
    return S.TREES[tree] if tree in S.TREES else EXTRA_TREES[tree]


def tree_nested(tree):
    if tree == "big":
        return [[]]
    return S.NESTED[tree] if tree in S.NESTED else EXTRA_NESTED[tree]


def stamp(root, base=BASE_MTIME, spread=10**7):
    """give every entry outside the ascmhl folders (root included) a modification time that is a function of its
    relative path only - 'same modification times' of the statement"""
    todo = [(root, ".")]
    for dp, dns, fns in REAL_WALK(root):
        if "ascmhl" in dns:
            dns.remove("ascmhl")
        for n in dns + fns:
            p = os.path.join(dp, n)
            todo.append((p, os.path.relpath(p, root)))
    for p, rel in todo:
        c = zlib.crc32(rel.encode("utf-8", "surrogateescape"))
        ns = (base + c % spread) * 10**9 + (c % 997) * 10**6
        os.utime(p, ns=(ns, ns), follow_symlinks=False)


def collect(root):
    """{relative path: bytes} of every file inside any ascmhl folder below root"""
    out = {}
    for dp, dns, fns in REAL_WALK(root):
        dns.sort()
        rel = os.path.relpath(dp, root)
        if "ascmhl" not in rel.split(os.sep):
            continue
        for n in sorted(fns):
            with open(os.path.join(dp, n), "rb") as f:
                out[os.path.join(rel, n)] = f.read()
    return out


# ------------------------------------------------------------------------------------------- locations
def place(vt, loc):
    """returns (access path of the root, path at which the tree is physically built)"""
    if loc.startswith("named:"):
        r = os.path.join(vt, loc[6:], NAME)
        return r, r
    if loc == "base":
        r = os.path.join(vt, "base", NAME)
    elif loc == "neutral2":
        r = os.path.join(vt, "x", "y", "base2", NAME)
    elif loc == "ascmhl":
        r = os.path.join(vt, "ascmhl", NAME)
    elif loc == "dsstore":
        r = os.path.join(vt, ".DS_Store", NAME)
    elif loc == "deepascmhl":
        r = os.path.join(vt, "q", "ascmhl", "r", "ascmhl", NAME)
    elif loc == "uni":
        r = os.path.join(vt, "sp ace", "\u00dcn\u00ef c\u00f6d\u00e9", "Cafe\u0301", NAME)
    elif loc == "xml":
        r = os.path.join(vt, "a&b<c>'d", 'q"uote', "line\u2028sep", NAME)
    elif loc == "long":
        r = os.path.join(vt, *(["abcdefghijkl"] * 16), NAME)
    elif loc == "inhistory":
        r = os.path.join(vt, "outer", NAME)
        W.build(os.path.join(vt, "outer"), {"ascmhl/ascmhl_chain.xml": "not a chain", "ascmhl/0001_outer_2020-01-01_000000Z.mhl": "junk"})
    elif loc == "lnkanc":
        os.makedirs(os.path.join(vt, "realdir"), exist_ok=True)
        os.symlink("realdir", os.path.join(vt, "lnk"))
        return os.path.join(vt, "lnk", NAME), os.path.join(vt, "realdir", NAME)
    elif loc == "lnkroot":
        os.makedirs(os.path.join(vt, "mnt"), exist_ok=True)
        os.symlink(os.path.join("..", "store", "payload"), os.path.join(vt, "mnt", NAME))
        return os.path.join(vt, "mnt", NAME), os.path.join(vt, "store", "payload")
    elif loc == "other":
        r = os.path.join(vt, "base", "other name")
    elif loc == "rootascmhl":
        r = os.path.join(vt, "base", "ascmhl")
    else:
        raise ValueError(loc)
    return r, r


def spell(root, how):
    """(argument given to the command, cwd) for the root at `root`"""
    parent, name = os.path.dirname(root), os.path.basename(root)
    if how == "abs":
        return root, None
    if how == "slash":
        return root + os.sep, None
    if how == "dslash":
        return root + os.sep + os.sep, None
    if how == "slashdot":
        return root + os.sep + ".", None
    if how == "absdots":
        sib = os.path.join(parent, "sib")
        os.makedirs(sib, exist_ok=True)
        return os.path.join(parent, ".", "sib", "..", name), None
    if how == "rel":
        return name, parent
    if how == "reldot":
        return os.path.join(".", name), parent
    if how == "relslash":
        return name + os.sep, parent
    if how == "dot":
        return ".", root
    if how == "dotslash":
        return "." + os.sep, root
    if how == "updown":
        sib = os.path.join(parent, "sib")
        os.makedirs(sib, exist_ok=True)
        return os.path.join("..", name), sib
    if how == "grand":
        return os.path.join(os.path.basename(parent), name), os.path.dirname(parent)
    raise ValueError(how)


# ------------------------------------------------------------------------------------------- running a script
class Ctx:
    def __init__(self, run, clock, vt, tree, nested, fmts, loc, how, order, mt=(BASE_MTIME, 10**7)):
        self.run, self.clock, self.vt = run, clock, vt
        self.spec = tree_spec(tree)
        self.nested, self.fmts, self.loc, self.how = nested, fmts, loc, how
        self.order = Order(order, run.seed)
        self.mt = mt
        self.access, self.built = place(vt, loc)
        items = list(self.spec.items())
        if order != "os":  # also vary the physical creation order (what the OS order is a function of on some file systems)
            items.reverse()
        W.build(self.built, dict(items))
        self.arg, self.cwd = spell(self.access, how)
        self.files = sorted(k for k, v in self.spec.items() if not k.endswith("/") and not isinstance(v, tuple))
        self.exits = []
        self.step = 0
        self.sealed = False
        self.nii = 0

    @property
    def name(self):
        """the name of the root folder as the command can know it: from inside a symlinked root ('.' with the root as cwd) only the
        real name is visible"""
        return os.path.basename(os.path.realpath(self.access) if self.how in ("dot", "dotslash") else self.access)

    def p(self, rel):
        return os.path.join(self.built, rel)

    def optpath(self, path_abs):
        """a path given to an option: absolute for the absolute spellings, relative to the cwd otherwise"""
        if self.cwd is None:
            return path_abs
        return os.path.relpath(path_abs, os.path.realpath(self.cwd))

    def _cmd(self, name, args, label):
        self.step += 1
        self.clock.move_to(T0 + datetime.timedelta(seconds=61 * self.step))
        stamp(self.built, *self.mt)
        with self.order:
            code, out, exc = W.run(name, args, cwd=self.cwd)
        self.exits.append((label, code, type(exc).__name__ if exc is not None else None))
        return code

    def create(self, opts=(), fm=None, sf=(), i=(), ii=None, sub=None):
        args = [self.arg if sub is None else os.path.join(self.arg, sub)] + S.hargs(fm or self.fmts) + list(opts)
        for s in sf:
            args += ["-sf", os.path.join(self.arg, s)]
        for pat in i:
            args += ["-i", pat]
        if ii is not None:
            self.nii += 1
            f = os.path.join(self.vt, f"patterns {self.nii}.txt")
            with open(f, "w", encoding="utf-8") as fh:
                fh.write("\n".join(ii) + "\n")
            args += ["-ii", self.optpath(f)]
        code = self._cmd("create", args, "create" if sub is None else f"create:{sub}")
        if sub is not None:
            self.sealed = False
        elif not sf:
            self.sealed = code == 0
        return code

    def nest(self, rel):
        return self.create(sub=rel)

    def verify(self, opts=(), sub=None):
        return self._cmd("verify", [self.arg if sub is None else os.path.join(self.arg, sub)] + list(opts), "verify")

    def read(self, rel):
        with open(self.p(rel), "rb") as f:
            return f.read()

    def write(self, rel, data):
        self.sealed = False
        os.makedirs(os.path.dirname(self.p(rel)), exist_ok=True)
        with open(self.p(rel), "wb") as f:
            f.write(data if isinstance(data, bytes) else data.encode("utf-8"))

    def rm(self, rel):
        self.sealed = False
        os.remove(self.p(rel))

    def mv(self, a, b):
        self.sealed = False
        os.rename(self.p(a), self.p(b))


def s_seal(c):
    c.create()


def s_reseal(c):
    c.create()
    c.create()


def s_edit(c):
    """same size + same mtime edit (a failed generation, exit 11), an added file, then repair"""
    c.create()
    if not c.files:
        c.write("new.bin", b"n")
        c.create()
        return
    f = c.files[len(c.files) // 2]
    old = c.read(f)
    c.write(f, bytes(b ^ 0x20 for b in old) if old else b"x")
    c.write("added file.bin", b"new")
    c.create()
    c.write(f, old)
    c.create()


def s_missing(c):
    """a recorded file disappears (exit 12), then it is excluded by a pattern that is just its name"""
    c.create()
    if not c.files:
        c.create()
        return
    f = c.files[-1]
    c.rm(f)
    c.create()
    c.create(i=[os.path.basename(f)])
    c.create()


def s_ignore(c):
    c.create(i=["*.txt"])
    c.create(i=["B/", "/c.txt"])
    c.create(ii=["A/deep/", "!A/a.txt", "z/empty.bin", "tmp"])
    c.write("B/late.bin", "l")
    c.write("E/in e.txt", "e")
    c.create(i=["E"], opts=["-n"])
    c.create()


def s_sf(c):
    c.create(sf=["A/a.txt", "A/a.txt"])
    c.create(sf=["A", "c.txt"])
    c.create(opts=["-n"])
    c.create(sf=["z/empty.bin"], i=["*.bin"])
    c.create()


def s_formats(c):
    c.create(fm=["md5"])
    c.create(fm=["xxh64", "c4"])
    c.create(fm=["sha1"], opts=["-n"])
    c.create(fm=["md5", "md5"])
    c.create(fm=["xxh128", "xxh3", "md5"])


def s_many(c):
    for k in range(12 if c.run.tier == "thorough" else 11):
        if k % 4 == 1:
            c.write(f"gen{k}/added {k}.bin", f"{k}")
        c.create()


def s_rename(c):
    c.create()
    c.mv("A/a.txt", "A/renamed a.txt")
    c.create(opts=["-dr"])
    c.mv("B", "B2")
    c.create(opts=["-dr"])
    c.create()


def s_renamedup(c):
    """several recorded files with the same content vanish, one new file with that content appears, -dr"""
    for n in ("dup1.bin", "dup 2.bin", "dup3.bin"):
        c.write(n, "same")
    c.create()
    for n in ("dup1.bin", "dup 2.bin", "dup3.bin"):
        c.rm(n)
    c.write("merged.bin", "same")
    c.create(opts=["-dr"])
    c.create()


def s_latenest(c):
    """histories that appear inside an already sealed tree, a failure inside one of them, repair"""
    c.create()
    c.nest("B")
    c.nest("A")
    c.create()
    old = c.read("A/deep/x.bin")
    c.write("A/deep/x.bin", old[::-1][:-1] + b"!")
    c.create()
    c.write("A/deep/x.bin", old)
    c.create()
    c.nest("A/deep")
    c.create()


def s_tz(c):
    """a DST zone given as POSIX TZ string, mtimes on both sides of the switch back and inside the repeated hour"""
    old = os.environ.get("TZ")
    os.environ["TZ"] = "EST5EDT,M3.2.0,M11.1.0"
    time.tzset()
    try:
        c.mt = (1730610000 - 7200, 4 * 3600)  # 2024-11-03 05:00 UTC = 01:00 EDT, the repeated hour follows
        c.create()
        c.write("added.bin", "x")
        c.create()
    finally:
        if old is None:
            os.environ.pop("TZ", None)
        else:
            os.environ["TZ"] = old
        time.tzset()


SCRIPTS = {
    "seal": s_seal,
    "reseal": s_reseal,
    "edit": s_edit,
    "missing": s_missing,
    "ignore": s_ignore,
    "sf": s_sf,
    "formats": s_formats,
    "many": s_many,
    "rename": s_rename,
    "latenest": s_latenest,
    "renamedup": s_renamedup,
    "tz": s_tz,
}
# ancestors that match a pattern the script uses (the literal last-removed file name is added per world)
SCRIPT_ANCESTORS = {
    "ignore": ["notes.txt", "B", "A/deep", "c.txt", "tmp", "E", "z/empty.bin"],
    "sf": ["x.bin", "A"],
    "missing": [],
    "renamedup": ["q", "longer_name_here", "x/y/z", "d"],
}


def execute(run, clock, vt, world, loc, how, order):
    script, tree, ni, fmts = world
    c = Ctx(run, clock, vt, tree, tree_nested(tree)[ni], fmts, loc, how, order)
    for nr in c.nested:
        c.nest(nr)
    SCRIPTS[script](c)
    return c


# ------------------------------------------------------------------------------------------- comparison
def normalise(files, name):
    """only used when the root's own name differs from the reference: the manifest file name carries the folder name"""
    if name == NAME:
        return files
    out = {}
    for k, v in files.items():
        k2 = re.sub(r"^ascmhl/(\d{4,})_" + re.escape(name) + "_", r"ascmhl/\1_" + NAME + "_", k)
        if k == os.path.join("ascmhl", "ascmhl_chain.xml"):
            v = re.sub(rb"<path>(\d{4,})_" + re.escape(name.encode()) + b"_", rb"<path>\1_" + NAME.encode() + b"_", v)
        out[k2] = v
    return out


def first_diff(a, b):
    la, lb = a.split(b"\n"), b.split(b"\n")
    for k in range(max(len(la), len(lb))):
        x = la[k] if k < len(la) else b"<eof>"
        y = lb[k] if k < len(lb) else b"<eof>"
        if x != y:
            return f"line {k + 1}: reference {x.strip()[:160]!r} / here {y.strip()[:160]!r}"
    return "no difference"


def compare(run, cid, dims, ref, got, desc, inp):
    """ref/got: (exits, files)"""
    bad = False
    if ref[0] != got[0]:
        k = next((k for k in range(min(len(ref[0]), len(got[0]))) if ref[0][k] != got[0][k]), min(len(ref[0]), len(got[0])))
        run.violation(
            cid,
            f"{desc}: command #{k + 1} ended {got[0][k] if k < len(got[0]) else None}, at the reference location/spelling/order it ended "
            f"{ref[0][k] if k < len(ref[0]) else None}",
            f"{dims}/exit",
            inp=inp,
        )
        bad = True
    ka, kb = set(ref[1]), set(got[1])
    if ka != kb:
        run.violation(
            cid,
            f"{desc}: different set of files in the ascmhl folders: only at reference {sorted(ka - kb)[:4]}, only here {sorted(kb - ka)[:4]}",
            f"{dims}/file-set",
            inp=inp,
        )
        bad = True
    for k in sorted(ka & kb):
        if ref[1][k] != got[1][k]:
            kind = "chain-bytes" if k.endswith("ascmhl_chain.xml") else "manifest-bytes"
            run.violation(cid, f"{desc}: {k} is not byte-identical to the reference run; {first_diff(ref[1][k], got[1][k])}", f"{dims}/{kind}", inp=inp)
            bad = True
            break
    return bad


def dims_of(loc, how, order):
    d = []
    if loc != "base":
        d.append("location")
    if how != "abs":
        d.append("spelling")
    if order != "os":
        d.append("order")
    return "+".join(d) or "repeat"


# ------------------------------------------------------------------------------------------- main
def worlds(tier):
    fsets = S.format_sets(tier)
    out = []
    k = 0
    thorough = tier == "thorough"

    def add(script, tree, ni):
        nonlocal k
        out.append((script, tree, ni, fsets[k % len(fsets)]))
        k += 1

    all_trees = list(S.TREES) + list(EXTRA_TREES)
    for tree in all_trees:
        nn = len(tree_nested(tree))
        for ni in range(nn) if (thorough or tree in ("deep", "levels")) else sorted({0, nn - 1}):
            add("seal", tree, ni)
    for script, rich in (("reseal", ["deep", "names", "prefix", "levels", "wide", "siblings"]), ("edit", ["deep", "names", "siblings", "links"]), ("missing", ["deep", "prefix", "wide", "case"])):
        for ti, tree in enumerate(all_trees if thorough else rich):
            nn = len(tree_nested(tree))
            for ni in sorted({0, nn - 1}) if thorough else [(nn - 1) if (script == "reseal" or ti % 2) else 0]:
                add(script, tree, ni)
    for script in ("ignore", "sf", "formats", "many", "rename", "latenest", "tz"):
        for ni in (0, 2) if (thorough and script != "latenest") else (0,):
            add(script, "deep", ni)
    add("many", "siblings", 1)
    add("tz", "names", 0)
    add("renamedup", "flat", 0)  # the recorded previous path once depended on the iteration order of a set of absolute paths
    if thorough:
        add("seal", "big", 0)
    return out


LOCS = ["ascmhl", "dsstore", "deepascmhl", "uni", "xml", "long", "inhistory", "lnkanc", "lnkroot", "other", "rootascmhl", "neutral2"]
SPELLS = ["slash", "slashdot", "rel", "reldot", "relslash", "dot", "dotslash", "updown", "grand", "absdots", "dslash"]
ORDERS = ["rev", "rot", "half", "oddeven", "shuf1", "sorted"]


def variants(world, tier, idx):
    """(loc, spelling, order) triples run against the reference ('base','abs','os') of this world"""
    script, tree, ni, fmts = world
    spec = tree_spec(tree)
    files = sorted(k for k, v in spec.items() if not k.endswith("/") and not isinstance(v, tuple))
    tops = sorted({k.split("/")[0] for k in spec})
    named = list(SCRIPT_ANCESTORS.get(script, []))
    if files:
        named.append(os.path.basename(files[-1]))  # the name the 'missing' script turns into a pattern
    if tops:
        named.append(tops[0])  # an ancestor called like an entry of the tree itself
    named = ["named:" + n for n in dict.fromkeys(named)]
    must = [("ascmhl", "abs", "os")] + [(n, "abs", "os") for n in named if script in SCRIPT_ANCESTORS]
    if script in ("sf", "ignore"):  # option paths (-sf, -ii) relative to a cwd that is not the root
        must += [("base", "rel", "os"), ("ascmhl", "grand", "rev")]
    locs = LOCS + named
    single = [(l, "abs", "os") for l in locs]
    single += [(("base", "ascmhl")[(idx + j) % 2], s, "os") for j, s in enumerate(SPELLS)]
    single += [(("ascmhl", "base")[(idx + j) % 2], "abs", o) for j, o in enumerate(ORDERS)]

    def combo(i):
        return (locs[i % len(locs)], SPELLS[(i * 3 + 1) % len(SPELLS)], (ORDERS + ["shuf2", "shuf3", "perm5", "perm23"])[(i * 7 + 2) % (len(ORDERS) + 4)])

    if tier == "thorough":
        if script not in ("seal", "ignore", "sf", "missing", "renamedup"):  # half of the single-dimension variants, alternating
            single = [v for j, v in enumerate(single) if (j + idx) % 2 == 0]
        perms = (1, 2, 3, 4, 5, 7, 11, 23, 119, 719, 5039)
        if tree not in ("wide", "siblings") and script != "many":
            perms = [perms[(idx + j * 3) % len(perms)] for j in range(3)]
        chosen = must + single + [combo(idx + 3 * j) for j in range(5)]
        chosen += [(("base", "uni")[k % 2], ("abs", "rel")[(k // 2) % 2], f"perm{k}") for k in perms]
    else:
        chosen = must + [single[(idx * 5) % len(single)], combo(idx), combo(idx * 5 + 7)]
        if script == "many":  # long runs: fewer of them, but with the order of enumeration varied
            chosen = must + [combo(idx), ("ascmhl", "rel", "shuf1")]
        elif script == "latenest" or tree == "siblings":  # where the order of enumeration has most to act on
            chosen += [("base", "abs", "rev"), ("ascmhl", "rel", "shuf1")]
    if script == "reseal" and tree == "deep":
        chosen.append(("base", "dslash", "os"))  # doubled trailing slash (once made every recorded path look missing on the second run)
    seen, out = set(), []
    for v in chosen:
        if v not in seen:
            seen.add(v)
            out.append(v)
    return out


COPIES = [
    ("ascmhl", "abs", "os"),
    ("deepascmhl", "rel", "rev"),
    ("other", "slash", "shuf1"),
    ("lnkroot", "dot", "os"),
    ("uni", "grand", "rot"),
    ("dsstore", "slashdot", "half"),
    ("xml", "updown", "os"),
    ("inhistory", "reldot", "oddeven"),
    ("lnkanc", "abs", "rev"),
    ("long", "dot", "os"),
    ("rootascmhl", "abs", "os"),
    ("neutral2", "dslash", "os"),
    ("ascmhl", "dslash", "rev"),
]


def vid(prefix, v):
    """stable case id of a variant (no single quote: the id is quoted that way in replay commands)"""
    return f"{prefix}/{v[0]}/{v[1]}/{v[2]}".replace("'", "%27")


def main():
    run = Run(
        "C13",
        rule="case = (command script, tree, nested-history placement, format set) x one variant (location of the root, spelling of the "
        "root argument, directory enumeration order), compared byte for byte (all files of all ascmhl folders, all exit codes) with the "
        "reference run of the same script (neutral ancestors, absolute path, OS order) under the same frozen clock and the same mtimes; "
        "copy cases = the finished reference tree copied to another location: verify of the root must exit 0 if the last "
        "whole-folder create succeeded (else as at the origin; nested roots and verify -dh: as at the origin), and a further create there must equal the same create on a neutral copy; "
        "non-trivial = distinct (script, tree, placement, formats, location, spelling, order)",
        bound="13 trees (<= 12 entries, depth <= 4, spaces / NFC+NFD / XML-special / U+2028 names, prefix siblings, case pairs, file symlinks, "
        "empty tree, 1 MiB files in thorough), <= 4 nested histories up to 3 deep, 12 scripts of 1-13 commands (re-seal, same-size same-mtime edit "
        "-> exit 11, missing file -> exit 10, -i/-ii patterns with slashes / trailing slash / anchoring / negation, -sf, -n, -dr incl. several vanished files of identical content, changing and "
        "repeated format sets, 11 (quick) / 12 generations, histories created inside a sealed tree, DST zone), 13 location kinds + ancestors named after the "
        "patterns in use (ascmhl, .DS_Store, twice ascmhl, a second neutral place, *.txt-like, dir pattern, slash pattern, non-ASCII, XML-special, 200+ chars, inside "
        "another history, symlinked ancestor, symlinked root, other root name, root called ascmhl), 12 spellings (absolute, /, //, /., /./, "
        "relative, ./x, x/, ., ./, ../x, parent/x), orders: reverse, rotate, halves, odd-even, seeded shuffles, sorted, k-th permutations "
        "(thorough); quick samples 4-6 variants + 1 copy per world, thorough runs every (for the longer scripts every second) single-dimension variant, 8-16 combinations and 3 copies per world",
    )
    from freezegun import freeze_time

    freezer = freeze_time(T0)
    clock = freezer.start()
    token = os.path.basename(run.tmp).encode()
    try:
        for idx, world in enumerate(worlds(run.tier)):
            script, tree, ni, fmts = world
            wid = f"{script}/{tree}/{ni}/{'+'.join(fmts)}"
            vs = variants(world, run.tier, idx)
            nc = 3 if run.tier == "thorough" else 1
            cs = [COPIES[(idx * nc + j) % len(COPIES)] for j in range(nc)]
            ids = [f"{wid}/ref"] + [vid(wid, v) for v in vs] + [vid(wid + "/copy", v) for v in cs]
            if not any(run.want(i) for i in ids):
                continue
            wtmp = os.path.join(run.tmp, f"w{idx}")
            inp0 = {"script": script, "tree": tree, "nested": tree_nested(tree)[ni], "formats": fmts}
            # ---- reference run
            ref = execute(run, clock, os.path.join(wtmp, "ref"), world, "base", "abs", "os")
            ref_res = (ref.exits, collect(ref.built))
            cid = f"{wid}/ref"
            if run.want(cid):
                run.case(cid, (wid, "ref"), sample={"case": cid, "exits": [e[1] for e in ref.exits]})
                for k, v in ref_res[1].items():
                    if token in v:
                        run.violation(cid, f"{k} contains the absolute location of the root ({token.decode()})", "location/path-leak", inp=inp0)
                        break
            # ---- variants
            for vi, (loc, how, order) in enumerate(vs):
                cid = vid(wid, (loc, how, order))
                if not run.want(cid):
                    continue
                run.case(cid, (wid, loc, how, order), sample={"case": cid})
                c = execute(run, clock, os.path.join(wtmp, f"v{vi}"), world, loc, how, order)
                got = (c.exits, normalise(collect(c.built), c.name))
                desc = f"root at {os.path.relpath(c.access, c.vt)!r} given as {c.arg.replace(c.vt + os.sep, '')!r}" + (
                    f" from cwd {os.path.relpath(c.cwd, c.vt)!r}" if c.cwd else ""
                ) + f", enumeration order {order}"
                compare(run, cid, dims_of(loc, how, order), ref_res, got, desc, dict(inp0, location=loc, spelling=how, order=order, arg=c.arg, cwd=c.cwd))
            # ---- copies of the finished reference tree
            want_copies = [(j, v) for j, v in enumerate(cs) if run.want(vid(wid + "/copy", v))]
            if want_copies:
                nroots = W.nested_roots(ref.built)
                origin = [ref.verify()] + [ref.verify(sub=nr) for nr in nroots]
                origin_dh = ref.verify(opts=["-dh"])
                cont = _continue(run, clock, os.path.join(wtmp, "cont"), ref, "base", "abs", "os")
                cont_res = (cont[0], cont[1])
                for j, (loc, how, order) in want_copies:
                    cid = vid(wid + "/copy", (loc, how, order))
                    run.case(cid, (wid, "copy", loc, how, order), sample={"case": cid, "sealed": ref.sealed})
                    ex, files, c = _continue(run, clock, os.path.join(wtmp, f"c{j}"), ref, loc, how, order, verify_first=nroots)
                    inp = dict(inp0, location=loc, spelling=how, order=order, arg=c.arg, cwd=c.cwd)
                    where = f"copy at {os.path.relpath(c.access, c.vt)!r} (given as {c.arg.replace(c.vt + os.sep, '')!r}" + (
                        f" from cwd {os.path.relpath(c.cwd, c.vt)!r}" if c.cwd else ""
                    ) + f", order {order})"
                    codes = [e[1] for e in ex[: 1 + len(nroots)]]
                    dh = ex[1 + len(nroots)][1]
                    for sub, code, oc in zip(["."] + nroots, codes, origin):
                        # the statement's 'sealed tree' is the root; a nested root (which the outer patterns may exclude) is only compared
                        if ref.sealed and code != 0 and sub == ".":
                            run.violation(cid, f"{where}: verify of {sub!r} exits {code}, expected 0 for a sealed tree (at the origin it exits {oc})", "copy/verify-exit", inp=inp)
                        elif code != oc:
                            run.violation(cid, f"{where}: verify of {sub!r} exits {code}, at the origin it exits {oc}", "copy/verify-differs", inp=inp)
                    if dh != origin_dh:
                        run.violation(cid, f"{where}: verify -dh exits {dh}, at the origin it exits {origin_dh}", "copy/verify-dh-differs", inp=inp)
                    got = (ex[2 + len(nroots) :], normalise(files, c.name))
                    compare(run, cid, "copy", cont_res, got, where + ": one more create, then a recorded file removed and verify", inp)
            shutil.rmtree(wtmp, ignore_errors=True)
    finally:
        freezer.stop()
    run.finish()


class _Copy(Ctx):
    """a context on a copy of a finished tree"""

    def __init__(self, run, clock, vt, src, loc, how, order):
        self.run, self.clock, self.vt = run, clock, vt
        self.spec, self.nested, self.fmts, self.loc, self.how = src.spec, src.nested, src.fmts, loc, how
        self.order = Order(order, run.seed)
        self.mt = src.mt
        self.access, self.built = place(vt, loc)
        os.makedirs(os.path.dirname(self.built), exist_ok=True)
        shutil.copytree(src.built, self.built, symlinks=True)
        self.arg, self.cwd = spell(self.access, how)
        self.files, self.exits, self.step, self.sealed, self.nii = src.files, [], src.step, src.sealed, 0


def _continue(run, clock, vt, src, loc, how, order, verify_first=None):
    """copy src's tree to the location, optionally verify it (root, nested roots, -dh), then seal one more generation"""
    c = _Copy(run, clock, vt, src, loc, how, order)
    if verify_first is not None:
        c.verify()
        for nr in verify_first:
            c.verify(sub=nr)
        c.verify(opts=["-dh"])
    c.step = src.step + 10  # the same clock for the further generation wherever it is made
    c.create()
    # a recorded file disappears from the copy: the verdict of verify must again be the same wherever the copy lies
    gone = next((f for f in c.files if os.path.isfile(c.p(f))), None)
    if gone is not None:
        c.rm(gone)
        c.verify()
    return c.exits, collect(c.built), c


if __name__ == "__main__":
    main()
