import argparse
import contextlib
import io
import json
import os
import shutil
import sys
import tempfile
import time

REPO = os.environ.get("VERIF_REPO", "/repo")
if REPO not in sys.path:
    sys.path.insert(0, REPO)


class Run:
    """collects evaluations, distinct cases and violations of one bounded driver run"""

    def __init__(self, pid, rule, bound):
        self.pid = pid
        self.rule = rule
        self.bound = bound
        self.evaluations = 0
        self.distinct = set()
        self.violations = []
        self.samples = []
        self.contract_evaluations = 0
        self.t0 = time.time()
        ap = argparse.ArgumentParser()
        ap.add_argument("--tier", default=os.environ.get("VERIF_TIER", "quick"))
        ap.add_argument("--seed", type=int, default=int(os.environ.get("VERIF_SEED", "0") or 0))
        ap.add_argument("--case")
        self.args = ap.parse_args()
        self.tier = self.args.tier
        self.seed = self.args.seed
        self.only = self.args.case
        self.tmp = tempfile.mkdtemp(prefix=f"verif_{pid}_")

    def want(self, case_id):
        return self.only is None or self.only == case_id

    def case(self, case_id, nontrivial_key=None, sample=None):
        self.evaluations += 1
        if nontrivial_key is not None:
            self.distinct.add(nontrivial_key)
        if sample is not None and len(self.samples) < 8:
            self.samples.append(sample)

    def reported_violations(self):
        """at most 3 per (first component of the case id, witness class), 200 in all: a class with many instances (e.g. a
        listed finding) must not crowd out a different violation"""
        seen, out = {}, []
        for v in self.violations:
            k = (str(v.get("case", "")).split("/")[0], v.get("witness_class"))
            seen[k] = seen.get(k, 0) + 1
            if seen[k] <= 3:
                out.append(v)
        return out[:200]

    def violation(self, case_id, what, witness_class, contract=None, inp=None):
        mod = sys.modules["__main__"].__spec__.name if getattr(sys.modules["__main__"], "__spec__", None) else "bounded"
        self.violations.append(
            {
                "case": case_id,
                "what": what,
                "witness_class": witness_class,
                "contract": contract,
                "input": inp,
                "replay_cmd": f"/venv/bin/python -m {mod} --case '{case_id}'",
            }
        )

    def finish(self, exhaustive=False):
        shutil.rmtree(self.tmp, ignore_errors=True)
        res = {
            "property": self.pid,
            "bound": self.bound,
            "rule": self.rule,
            "evaluations": self.evaluations,
            "distinct_nontrivial": len(self.distinct),
            "contract_evaluations": self.contract_evaluations,
            "violations": self.reported_violations(),
            "samples": self.samples,
            "exhaustive": exhaustive,
            "wall": round(time.time() - self.t0, 2),
        }
        if self.only:
            for v in self.violations:
                print("VIOLATION", json.dumps(v)[:2000])
        print(json.dumps(res))
        sys.exit(1 if self.violations else 0)


def cli(cmd, args, cwd=None):
    """run a click command of the real package in-process; returns (exit_code, output, exception)"""
    from click.testing import CliRunner

    runner = CliRunner()
    old = os.getcwd()
    if cwd:
        os.chdir(cwd)
    try:
        r = runner.invoke(cmd, args, catch_exceptions=True)
    finally:
        os.chdir(old)
    exc = r.exception if r.exception is not None and not isinstance(r.exception, SystemExit) else None
    return r.exit_code, r.output, exc
