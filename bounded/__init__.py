"""Bounded stand-ins and replay harnesses: run the REAL code of /repo (under /venv/bin/python) against the same
contracts / the property statement on enumerated small worlds.  Never counted as proved."""
