"""C17 bounded part: `create -dr` on small worlds x sets of simultaneous renames / moves / unrelated new files.

Oracle (from the statement only): every renamed file stays inside its history; after `create -dr` (exit 0) the owning
history has one new manifest that records the file under its new history-relative path with <previousPath> = the former
history-relative path, the old path is neither recorded nor listed as missing; `verify`, `diff`, `create` (no -dr) then
exit 0; `verify` exits non-zero once a renamed file's bytes change (size and mtime preserved); on a copy of the same
tree `create` without -dr exits non-zero, lists every old path as missing and records the new paths without previous
path.  Manifests are read with xml.etree (world.read_manifest), digests are recomputed with hashlib/xxhash.

Cases are independent; they are evaluated by a small process pool (VERIF_JOBS, default 6; 1 = in-process)."""
import itertools
import multiprocessing
import os
import random
import shutil
import subprocess
import sys
import time
import unicodedata

from . import scen as S
from . import world as W
from .common import REPO, Run

M = 1 << 20
NFD_E = unicodedata.normalize("NFD", "é")
WEIRD = ["sp ace r.txt", "Übér.txt", "Café " + NFD_E + ".txt", "a&b<c>'d;r.txt", 'q"uo]]>te.txt', "line sep r.txt", "tab\there.txt"]


# ------------------------------------------------------------------------------------------------ small helpers
def posix(p):
    return p.replace(os.sep, "/")


def safe(s):
    """case ids go into a shell command line: no quotes, no unprintable characters"""
    return "".join(c if (c.isprintable() and c not in "'\"\\$`!") else f"%{ord(c):04x}" for c in s)


def rel_to(h, p):
    return os.path.relpath(p, h) if h else p


def files_of(tree):
    return sorted(k for k, v in tree.items() if not k.endswith("/"))


def dirs_of(tree):
    out = set()
    for k in tree:
        d = k.rstrip("/") if k.endswith("/") else os.path.dirname(k)
        while d:
            out.add(d)
            d = os.path.dirname(d)
    return sorted(out)


def content_bytes(v):
    return v.encode("utf-8") if isinstance(v, str) else v


def missing_listed(out):
    """paths listed below a '... missing file(s):' line (split at line feeds only: names may hold U+2028)"""
    res, on = [], False
    for line in out.split("\n"):
        if "missing file(s):" in line:
            on = True
            continue
        if on:
            if line.startswith("  "):
                res.append(line[2:])
            else:
                on = False
    return res


def alter_keep_size_mtime(path):
    """flip the last byte (append one to an empty file), keep size and mtime; returns an undo function"""
    st = os.stat(path)
    with open(path, "rb") as f:
        data = f.read()
    nd = data[:-1] + bytes([data[-1] ^ 1]) if data else b"x"
    with open(path, "wb") as f:
        f.write(nd)
    os.utime(path, ns=(st.st_atime_ns, st.st_mtime_ns))

    def undo():
        with open(path, "wb") as f:
            f.write(data)
        os.utime(path, ns=(st.st_atime_ns, st.st_mtime_ns))

    return undo


def subst(args, tmpdir, cwd):
    """the pattern file of -ii is named relative to the cwd when the cwd is the folder that holds it, else absolutely"""
    return [("ign.txt" if cwd == tmpdir else os.path.join(tmpdir, "ign.txt")) if a == "@IGN@" else a for a in args]


def root_spelling(spell, tmp, root):
    if spell == "slash":
        return root + os.sep, None
    if spell == "rel":
        return os.path.basename(root), tmp
    if spell == "dot":
        return ".", root
    if spell == "relslash":
        return "." + os.sep + os.path.basename(root) + os.sep, tmp
    if spell == "elsewhere":
        return root, os.path.join(root, sorted(n for n in os.listdir(root) if os.path.isdir(os.path.join(root, n)) and n != "ascmhl")[0])
    return root, None


def do_moves(root, moves):
    for a, b in moves:
        os.makedirs(os.path.dirname(os.path.join(root, b)), exist_ok=True)
        assert not os.path.lexists(os.path.join(root, b)), b
        os.rename(os.path.join(root, a), os.path.join(root, b))


# ------------------------------------------------------------------------------------------------ rename targets
KINDS = ["samedir", "newdir", "otherdir", "weird", "up", "prefix", "deepnew", "case", "nfd", "emptydir"]


def target_for(kind, old, h, tree, roots, taken, salt):
    """a fresh path for `old` inside history h (component-wise), or None when the kind does not apply"""
    d, b = os.path.dirname(old), os.path.basename(old)
    stem, ext = os.path.splitext(b)
    hd = h
    cand = None
    if kind == "samedir":
        cand = os.path.join(d, stem + "_r" + ext)
    elif kind == "prefix":
        cand = os.path.join(d, b + "_proxy") if salt % 2 == 0 else os.path.join(d, (stem[:-1] or stem + stem) + ext)
    elif kind == "weird":
        cand = os.path.join(d, WEIRD[salt % len(WEIRD)])
    elif kind == "case":
        cand = os.path.join(d, b.swapcase())
    elif kind == "nfd":
        nb = unicodedata.normalize("NFD", b)
        if nb == b:
            nb = unicodedata.normalize("NFC", b)
        cand = os.path.join(d, nb)
    elif kind == "up":
        cand = os.path.join(hd, b) if d != hd else os.path.join(hd, "Up" + str(salt % 3), b)
    elif kind == "newdir":
        cand = os.path.join(hd, "N" + str(salt % 2), b)
    elif kind == "deepnew":
        cand = os.path.join(d, "n e w", "ü", stem + ext)
    elif kind == "otherdir":
        for od in dirs_of(tree)[salt % 3 :] + dirs_of(tree):
            if od != d and W.owner_of(os.path.join(od, b), roots) == h and od not in roots:
                cand = os.path.join(od, b)
                break
    elif kind == "emptydir":
        for od in [k.rstrip("/") for k in tree if k.endswith("/")]:
            if W.owner_of(os.path.join(od, b), roots) == h and od not in roots:
                cand = os.path.join(od, b)
                break
    if cand is None:
        return None
    cand = os.path.normpath(cand)
    recorded = set(files_of(tree)) | set(dirs_of(tree))
    if cand == old or cand in taken or cand in recorded or W.owner_of(cand, roots) != h:
        return None
    if any(t == cand or t.startswith(cand + os.sep) or cand.startswith(t + os.sep) for t in taken):
        return None
    if any(r == cand or r.startswith(cand + os.sep) for r in recorded):
        return None
    if W.ignored(cand, W.spec_of(W.DEFAULT_IGNORE)):
        return None
    return cand


def plan_renames(tree, nested, subset, offset):
    """assign to every file of `subset` a rename kind (rotating through KINDS starting at offset) and a fresh target"""
    roots = sorted(nested)
    taken, out, kinds = set(), [], []
    for i, old in enumerate(subset):
        h = W.owner_of(old, roots)
        for j in range(len(KINDS)):
            kind = KINDS[(offset + i * 3 + j) % len(KINDS)]
            t = target_for(kind, old, h, tree, roots, taken, offset + i)
            if t is not None:
                taken.add(t)
                out.append((old, t))
                kinds.append(kind)
                break
    return out, kinds


def new_files_for(n, renames, tree, nested, salt):
    """n unrelated new files with contents different from everything in the tree"""
    roots = sorted(nested)
    spots = ["unrelated new.bin"]
    if renames:
        old, new = renames[salt % len(renames)]
        spots.append(os.path.join(os.path.dirname(new), "next to new.bin"))
        spots.append(os.path.join(os.path.dirname(old), os.path.basename(old) + ".bak"))
    for d in dirs_of(tree):
        spots.append(os.path.join(d, "fresh.txt"))
    out = {}
    used = {t for _, t in renames} | set(files_of(tree))
    for k in range(n):
        for s in spots[k:] + spots:
            if s not in used and s not in out and not W.ignored(s, W.spec_of(W.DEFAULT_IGNORE)):
                out[s] = f"unrelated new content {k} {salt}"
                break
    return out


# ------------------------------------------------------------------------------------------------ one world
def scenario(cid, key, tree, nested=(), fm1=("md5",), pre=(), renames=(), newfiles=None, dr=None, post=None, spell="abs", tz=None, mtimes=None,
             folder_moves=(), kinds=(), ext=None, full=True, crash=None, ign_file=None):
    return {
        "cid": cid, "key": key, "tree": tree, "nested": list(nested), "fm1": list(fm1), "pre": list(pre), "renames": list(renames),
        "newfiles": dict(newfiles or {}), "dr": list(dr if dr is not None else S.hargs(fm1)), "post": list(post if post is not None else (dr if dr is not None else S.hargs(fm1))),
        "spell": spell, "tz": tz, "mtimes": mtimes or {}, "folder_moves": list(folder_moves), "kinds": list(kinds), "ext": ext, "full": full, "crash": crash,
        "ign_file": ign_file,
    }


def strip_opts(args):
    """the -h options of an argument list (for verify-free follow-up creates)"""
    out, i = [], 0
    while i < len(args):
        if args[i] == "-h":
            out += args[i : i + 2]
            i += 2
        else:
            i += 1
    return out


def formats_in(args):
    return sorted({args[i + 1] for i in range(len(args) - 1) if args[i] == "-h"}) or ["xxh128"]


def play(sc, base):
    cid = sc["cid"]
    V = []

    def bad(what, wclass, **inp):
        V.append((what, wclass, inp or None))

    old_tz = os.environ.get("TZ")
    try:
        if sc["tz"]:
            os.environ["TZ"] = sc["tz"]
            time.tzset()
        _play(sc, base, bad)
    except Exception as e:  # the driver itself must not die on one world
        import traceback

        bad(f"driver error {e!r}: {traceback.format_exc()[-600:]}", "driver/error")
    finally:
        if sc["tz"]:
            if old_tz is None:
                os.environ.pop("TZ", None)
            else:
                os.environ["TZ"] = old_tz
            time.tzset()
        shutil.rmtree(base, ignore_errors=True)
    return {"cid": cid, "key": sc["key"], "violations": V, "sample": {"case": cid, "renames": [list(map(posix, r)) for r in sc["renames"][:3]], "new": sorted(sc["newfiles"])[:2], "dr": sc["dr"]}}


def _play(sc, base, bad):
    tmp = base
    root = os.path.join(tmp, "t")
    W.build(root, sc["tree"])
    if sc["ext"]:
        W.build(os.path.join(tmp, "ext"), sc["ext"])
    for p, t in sc["mtimes"].items():
        os.utime(os.path.join(root, p), (t, t))
    for nr in sc["nested"]:
        code, out, exc = W.run("create", [os.path.join(root, nr)] + S.hargs(sc["fm1"]))
        if code != 0:
            bad(f"setup: create of nested history {nr} exits {code} ({exc!r})", "setup/nested")
            return
    # ---- earlier generations
    for step in sc["pre"]:
        kind = step[0]
        if kind == "create":
            code, out, exc = W.run("create", [root] + list(step[1]))
            if code != 0:
                bad(f"setup: create {step[1]} on an untouched tree exits {code} ({exc!r}): {out[-200:]}", "setup/create")
                return
        elif kind == "nest":
            code, out, exc = W.run("create", [os.path.join(root, step[1])] + list(step[2]))
            if code != 0:
                bad(f"setup: create of nested history {step[1]} exits {code} ({exc!r})", "setup/nested")
                return
        elif kind == "sf":
            args = [root] + list(step[2])
            for p in step[1]:
                args += ["-sf", os.path.join(root, p)]
            code, out, exc = W.run("create", args)
            if code != 0:
                bad(f"setup: create -sf {step[1]} exits {code} ({exc!r}): {out[-200:]}", "setup/sf")
                return
        elif kind == "add":
            W.build(root, step[1])
        elif kind == "fail":
            fp = os.path.join(root, step[1])
            st = os.stat(fp)
            with open(fp, "rb") as f:
                keep = f.read()
            with open(fp, "wb") as f:
                f.write(keep + b"!")
            code, out, exc = W.run("create", [root] + list(step[2]))
            with open(fp, "wb") as f:
                f.write(keep)
            os.utime(fp, ns=(st.st_atime_ns, st.st_mtime_ns))
            if code != 11:
                bad(f"setup: create on an altered file exits {code}, expected 11", "setup/fail")
                return
        elif kind == "mv":  # an earlier rename step, itself an instance of the property
            do_moves(root, step[1])
            code, out, exc = W.run("create", [root, "-dr"] + list(step[2]))
            if code != 0 or exc is not None:
                bad(f"earlier rename step {[(posix(a), posix(b)) for a, b in step[1]]}: create -dr {step[2]} exits {code} ({exc!r}): {out[-300:]}", "pre/dr-exit" if exc is None else f"pre/dr-exception-{type(exc).__name__}")
                return
    roots = W.nested_roots(root)
    renames = list(sc["renames"])
    for a, b in sc["folder_moves"]:
        for dp, _, fns in os.walk(os.path.join(root, a)):
            for n in fns:
                r = os.path.relpath(os.path.join(dp, n), root)
                renames.append((r, os.path.join(b, os.path.relpath(r, a))))
    for a, b in renames:
        assert W.owner_of(a, roots) == W.owner_of(b, roots), ("rename leaves its history", a, b)
    # ---- the change: renames / moves + unrelated new files
    do_moves(root, sc["folder_moves"] if sc["folder_moves"] else [])
    do_moves(root, sc["renames"])
    W.build(root, sc["newfiles"])
    # the statement is about pairwise distinct contents
    seen = {}
    for p, kind in W.visible_tree(root, W.DEFAULT_IGNORE).items():
        if kind == "f":
            with open(os.path.join(root, p), "rb") as f:
                c = f.read()
            assert c not in seen, ("contents not pairwise distinct", p, seen[c])
            seen[c] = p
    inp = {"renames": [(posix(a), posix(b)) for a, b in renames], "new": sorted(sc["newfiles"]), "dr": sc["dr"], "nested": sc["nested"], "spell": sc["spell"]}
    nodr = os.path.join(tmp, "nodr", "t")
    shutil.copytree(root, nodr, symlinks=True)
    if sc["ign_file"]:
        with open(os.path.join(tmp, "ign.txt"), "w") as f:
            f.write("\n".join(sc["ign_file"]) + "\n")
        with open(os.path.join(tmp, "nodr", "ign.txt"), "w") as f:
            f.write("\n".join(sc["ign_file"]) + "\n")
    # ---- runs between the renames and the -dr run that already record some of the new paths (the statement does not
    # exempt them: the files ARE recorded files that were renamed, and their old paths are still missing)
    for step in sc.get("mid", ()):
        if step[0] == "sf-new":
            sel = [b for a, b in renames if not step[1] or a in step[1]]
            args = [root] + list(step[2])
            for b in sel:
                args += ["-sf", os.path.join(root, b)]
            code, out, exc = W.run("create", args)
            if code != 0 or exc is not None:
                bad(f"between: create -sf of the new paths {[posix(b) for b in sel]} exits {code} ({exc!r}): {out[-200:]}", "mid/sf-exit")
                return
        elif step[0] == "plain":
            code, out, exc = W.run("create", [root] + list(step[1]))
            if exc is not None or code not in (0, 10):
                bad(f"between: create without -dr after the renames exits {code} ({exc!r}), expected 10 (missing): {out[-200:]}", "mid/plain-exit")
                return
    if sc["crash"] is not None:
        crash_then_continue(sc, tmp, root, bad)
    ok = run_dr_and_check(sc, tmp, root, roots, renames, inp, bad, after_crash=sc["crash"] is not None)
    if ok:
        follow_up(sc, tmp, root, renames, inp, bad)
    without_dr(sc, os.path.join(tmp, "nodr"), nodr, roots, renames, inp, bad)


def history_manifest_sets(root):
    return S.manifests_by_history(root)


def run_dr_and_check(sc, tmp, root, roots, renames, inp, bad, after_crash=False):
    before = sc.get("_before") or history_manifest_sets(root)
    arg, cwd = root_spelling(sc["spell"], tmp, root)
    code, out, exc = W.run("create", [arg, "-dr"] + subst(sc["dr"], tmp, cwd), cwd=cwd)
    if exc is not None:
        bad(f"create -dr {sc['dr']} aborts with {exc!r} (exit {code}) after renames {inp['renames']}: {out[-300:]}", f"dr/exception-{type(exc).__name__}", **inp)
        return False
    if code != 0:
        bad(f"create -dr {sc['dr']} exits {code}, expected 0, after renames {inp['renames']}: {out[-400:]}", f"dr/exit-{code}", **inp)
        return False
    listed = set(missing_listed(out))
    for a, b in renames:
        if posix(a) in listed or a in listed:
            bad(f"create -dr lists the renamed file {a!r} (now {b!r}) as missing", "dr/reported-missing", **inp)
    new = S.new_manifests(root, before)
    expected = {}  # history -> {new rel path: old rel path}
    for a, b in renames:
        h = W.owner_of(a, roots)
        expected.setdefault(h, {})[posix(rel_to(h, b))] = posix(rel_to(h, a))
    fmts = formats_in(sc["dr"])
    for h in [""] + roots:
        hp = os.path.join(root, h) if h else root
        recs = {}
        for mf in new.get(h, []):
            for r in W.read_manifest(mf)["records"]:
                recs.setdefault(r["path"], []).append((r, os.path.basename(mf)))
        if h in expected and not new.get(h):
            bad(f"history '{h or '.'}' got no new generation although {sorted(expected[h])} were renamed in it", "dr/no-generation", **inp)
            continue
        if not after_crash and len(new.get(h, [])) > 1:
            bad(f"history '{h or '.'}' got {len(new[h])} new manifests from one create -dr", "dr/generation-count", **inp)
        for np_, op in expected.get(h, {}).items():
            got = recs.get(np_)
            if not got:
                bad(f"history '{h or '.'}': renamed file not recorded under its new path {np_!r} (old {op!r}); recorded: {sorted(recs)[:8]}", "dr/not-recorded", **inp)
                continue
            withprev = [r for r, _ in got if r["previous"] is not None]
            r = withprev[0] if withprev else got[0][0]
            if r["previous"] != op:
                bad(f"history '{h or '.'}': {np_!r} recorded with previousPath {r['previous']!r}, expected {op!r}", "dr/previous-path", **inp)
            if r["is_dir"]:
                bad(f"history '{h or '.'}': {np_!r} recorded as a directory", "dr/kind", **inp)
                continue
            fp = os.path.join(hp, np_)
            have = {e["format"]: e["digest"] for e in r["entries"]}
            for f in fmts:
                want = W.file_digest(fp, f)
                if have.get(f) != want:
                    bad(f"{np_!r}: recorded {f} digest {have.get(f)} != {want} of the bytes on disk", "dr/digest", **inp)
            if r["size"] != str(os.path.getsize(fp)):
                bad(f"{np_!r}: size attribute {r['size']!r}, file has {os.path.getsize(fp)} bytes", "dr/size", **inp)
            if op in recs and op not in expected.get(h, {}):
                bad(f"history '{h or '.'}': old path {op!r} still recorded in the new generation", "dr/old-path-recorded", **inp)
        for p, lst in recs.items():
            for r, mfn in lst:
                if r["previous"] is not None and not r["is_dir"] and p not in expected.get(h, {}):
                    bad(f"history '{h or '.'}': file {p!r} was not renamed but is recorded with previousPath {r['previous']!r} in {mfn}", "dr/phantom-previous", **inp)
                if r["previous"] is not None and not r["is_dir"] and expected.get(h, {}).get(p) is not None and r["previous"] != expected[h][p]:
                    pass  # reported above as dr/previous-path
    return True


def follow_up(sc, tmp, root, renames, inp, bad):
    arg, cwd = root_spelling(sc["spell"], tmp, root)
    pick = None
    if renames:
        pick = renames[len(sc["cid"]) % len(renames)][1]
        alt = os.path.join(tmp, "alt", "t")
        shutil.copytree(root, alt, symlinks=True)
        undo = alter_keep_size_mtime(os.path.join(alt, pick))
        code, out, exc = W.run("verify", [alt])
        undo()  # a symbolic link in the copy points to the same outside file
        if code == 0:
            bad(f"verify exits 0 although the renamed file {pick!r} was altered (same size, same mtime) right after create -dr", "changed/verify-accepts", **inp)
        elif exc is not None:
            bad(f"verify aborts with {exc!r} on the altered renamed file {pick!r}", f"changed/verify-exception-{type(exc).__name__}", **inp)
        shutil.rmtree(os.path.join(tmp, "alt"), ignore_errors=True)
    for name, cmd, args in [("verify", "verify", []), ("diff", "diff", []), ("create", "create", sc["post"]), ("verify2", "verify", [])] + (
        [("create-dr-again", "create", ["-dr"] + sc["post"]), ("verify3", "verify", [])] if sc["full"] else []
    ):
        code, out, exc = W.run(cmd, [arg] + args, cwd=cwd)
        if code != 0 or exc is not None:
            bad(f"after create -dr of {inp['renames']}: `{cmd} {' '.join(args)}` exits {code} ({exc!r}), expected 0: {out[-400:]}", f"after/{name}", **inp)
            if name in ("create", "create-dr-again"):
                return
    if pick is not None:
        alter_keep_size_mtime(os.path.join(root, pick))
        code, out, exc = W.run("verify", [arg], cwd=cwd)
        if code == 0:
            bad(f"verify exits 0 although the renamed file {pick!r} was altered (same size, same mtime) after a later plain generation", "changed/verify-accepts-later", **inp)
        elif exc is not None:
            bad(f"verify aborts with {exc!r} on the altered renamed file {pick!r}", f"changed/verify-exception-{type(exc).__name__}", **inp)


def without_dr(sc, tmp, root, roots, renames, inp, bad):
    before = history_manifest_sets(root)
    arg, cwd = root_spelling(sc["spell"], tmp, root)
    code, out, exc = W.run("create", [arg] + subst(sc["dr"], tmp, cwd), cwd=cwd)
    if exc is not None:
        bad(f"create without -dr aborts with {exc!r} on the renamed tree", f"nodr/exception-{type(exc).__name__}", **inp)
        return
    if not renames:
        if code != 0:
            bad(f"create without -dr exits {code} although nothing was renamed: {out[-300:]}", "nodr/exit", **inp)
        return
    if code == 0:
        bad(f"create without -dr exits 0 although {inp['renames']} were renamed (old paths must be reported missing)", "nodr/exit-0", **inp)
    listed = set(missing_listed(out))
    for a, b in renames:
        if posix(a) not in listed and a not in listed:
            bad(f"create without -dr does not list the old path {a!r} as missing (listed: {sorted(listed)[:6]}, exit {code})", "nodr/not-missing", **inp)
    new = S.new_manifests(root, before)
    for a, b in renames:
        h = W.owner_of(a, roots)
        np_ = posix(rel_to(h, b))
        recs = [r for mf in new.get(h, []) for r in W.read_manifest(mf)["records"] if r["path"] == np_]
        if not recs:
            bad(f"create without -dr: new path {np_!r} not recorded as a new file in history '{h or '.'}'", "nodr/not-recorded", **inp)
        elif recs[0]["previous"] is not None:
            bad(f"create without -dr records {np_!r} with previousPath {recs[0]['previous']!r}", "nodr/previous-set", **inp)


# ------------------------------------------------------------------------------------------------ crashes
CHILD = r"""
import builtins, os, sys
repo, root, k, countfile = sys.argv[1], sys.argv[2], int(sys.argv[3]), sys.argv[4]
sys.path.insert(0, repo)
from ascmhl import commands
n = 0
top = os.path.dirname(root)
def event(path):
    global n
    try:
        p = os.fsdecode(path) if not isinstance(path, int) else ""
    except Exception:
        p = ""
    if not os.path.abspath(p).startswith(top):
        return False
    n += 1
    return n == k
def hook(ev, a):
    if ev == "open":
        fl = a[2]
        if isinstance(fl, int) and fl & (os.O_WRONLY | os.O_RDWR | os.O_CREAT | os.O_TRUNC | os.O_APPEND):
            if event(a[0]):
                os._exit(97)
    elif ev in ("os.rename", "os.mkdir", "os.remove", "os.rmdir", "os.utime", "os.chmod", "os.truncate", "os.link", "os.symlink"):
        if event(a[0]):
            os._exit(97)
sys.addaudithook(hook)
real_open = builtins.open
class Proxy:
    def __init__(self, f, path):
        self.__dict__["_f"] = f
        self.__dict__["_p"] = path
    def write(self, data):
        if event(self._p):
            self._f.write(data[: len(data) // 2])
            self._f.flush()
            os._exit(97)
        return self._f.write(data)
    def __getattr__(self, name):
        return getattr(self._f, name)
    def __enter__(self):
        self._f.__enter__()
        return self
    def __exit__(self, *a):
        return self._f.__exit__(*a)
    def __iter__(self):
        return iter(self._f)
def wopen(file, mode="r", *a, **kw):
    f = real_open(file, mode, *a, **kw)
    if any(c in mode for c in "wax+") and not isinstance(file, int):
        return Proxy(f, file)
    return f
builtins.open = wopen
import io
io.open = wopen
try:
    commands.create.main(sys.argv[5:], standalone_mode=True)
except SystemExit as e:
    code = e.code
else:
    code = 0
with real_open(countfile, "w") as f:
    f.write(str(n))
os._exit(code or 0)
"""


def run_child(tmp, root, k, args):
    cf = os.path.join(tmp, "events.txt")
    if os.path.exists(cf):
        os.remove(cf)
    env = dict(os.environ, PYTHONPATH=REPO)
    p = subprocess.run([sys.executable, "-c", CHILD, REPO, root, str(k), cf] + args, env=env, capture_output=True, text=True, cwd=tmp, timeout=120)
    n = None
    if os.path.exists(cf):
        with open(cf) as f:
            n = int(f.read())
    return p.returncode, n, (p.stdout + p.stderr)[-400:]


def crash_then_continue(sc, tmp, root, bad):
    sc["_before"] = history_manifest_sets(root)
    code, n, out = run_child(tmp, root, sc["crash"], [root, "-dr"] + subst(sc["dr"], tmp, None))
    if code != 97 and code != 0:
        bad(f"create -dr in a child process (kill point {sc['crash']}) exits {code}: {out}", "crash/child-exit")


def count_events(run, tree, nested, fm, renames, dr):
    base = os.path.join(run.tmp, "count")
    root = os.path.join(base, "t")
    W.build(root, tree)
    for nr in nested:
        W.run("create", [os.path.join(root, nr)] + S.hargs(fm))
    W.run("create", [root] + S.hargs(fm))
    do_moves(root, renames)
    code, n, out = run_child(base, root, 0, [root, "-dr"] + dr)
    shutil.rmtree(base, ignore_errors=True)
    return n or 0


# ------------------------------------------------------------------------------------------------ enumeration
def size_tree():
    def blob(n, tag):
        return (bytes(range(256)) * (n // 256 + 1))[: max(n - 1, 0)] + (tag if n else b"")

    return {
        "big/below.bin": blob(M - 1, b"a"),
        "big/at.bin": blob(M, b"b"),
        "big/above.bin": blob(M + 1, b"c"),
        "big/above_twin.bin": blob(M + 1, b"d"),  # differs from above.bin in the last byte only
        "small/one.bin": b"\x00",
        "small/empty.bin": b"",
        "E/": "",
    }


ODD = {
    " lead.txt": "o1",
    "trail .txt ": "o2",
    "dir /in it.txt": "o3",
    "-dash.txt": "o4",
    "#hash [b] {c}.txt": "o5",
    "100% *star?.txt": "o6",
    "dir /semi;colon=.txt": "o7",
}


def gen_cases(run):
    rnd = random.Random(run.seed)
    thorough = run.tier == "thorough"
    cases = []
    counter = itertools.count()

    # ---- (1) sets of simultaneous renames on every tree x nested placement
    trees = ["deep", "levels", "prefix", "names", "flat", "single", "case", "lookalike", "emptyfolder", "onlydirs"]
    pool = dict(S.TREES, odd=ODD)
    placements = dict(S.NESTED, odd=[[], ["dir "]])
    for tname in trees + ["odd"]:
        tree = pool[tname]
        for ni, nested in enumerate(placements[tname]):
            roots = sorted(nested)
            files = [f for f in files_of(tree) if not W.ignored(f, W.spec_of(W.DEFAULT_IGNORE))]
            subsets = [()] if (ni == 0 or not files) else []
            pairs = list(itertools.combinations(files, 2))
            triples = list(itertools.combinations(files, 3))
            if thorough:
                subsets += [(f,) for f in files] + pairs + triples
                if len(files) > 3:
                    subsets += list(itertools.combinations(files, 4))[:30]
            else:
                # every file is renamed alone under some placement: 3 singletons per placement, rotating through the files
                nsing = min(len(files), 3)
                subsets += [(files[(ni * nsing + j) % len(files)],) for j in range(nsing)]
                rnd.shuffle(pairs)
                rnd.shuffle(triples)
                subsets += pairs[:1] + triples[: 1 if tname in ("deep", "levels", "names", "odd") else 0]
            if len(files) > 1:
                subsets.append(tuple(files))
            subsets = list(dict.fromkeys(subsets))
            rounds = (0, 1, 2) if thorough else (0,)
            for sub in subsets:
                for rd in rounds:
                    c = next(counter)
                    off = c + rd * 3
                    if not thorough and len(sub) == 1:
                        off = c * 3 + rnd.randrange(len(KINDS))
                    renames, kinds = plan_renames(tree, nested, list(sub), off)
                    nnew = (c + rd) % 3
                    newfiles = new_files_for(nnew, renames, tree, nested, c)
                    # unrelated new files stay out of nested-history ambiguity: they may lie anywhere
                    cid = safe(f"set/{tname}/{ni}/{'+'.join(posix(s) for s in sub) or '-'}/{'+'.join(kinds) or '-'}/n{nnew}" + (f"/r{rd}" if rd else ""))
                    key = ("set", tname, ni, tuple(renames), nnew) if renames else None
                    cases.append(scenario(cid, key, tree, nested, renames=renames, newfiles=newfiles, kinds=kinds, full=(c % 4 == 0) or thorough))

    # ---- (2) format of the earlier generations x format of the -dr generation x layout of the moves
    deep = S.TREES["deep"]
    layouts = {
        "stay": [("c.txt", "c renamed.txt"), ("A/a.txt", "A/a_r.txt"), ("A/deep/x.bin", "B/x.bin")],
        "newdir": [("c.txt", "N/c2.txt"), ("A/a.txt", "A/a_r.txt"), ("A/deep/x.bin", "N/deep er/x.bin")],
    }
    fsets = S.format_sets(run.tier)
    singles = [f for f in fsets if len(f) == 1 or len(f) == 6]
    allpairs = [(a, b) for a in fsets for b in fsets]
    pairs = ([(a, b) for a in singles for b in singles] + rnd.sample(allpairs, 60)) if thorough else [
        (["md5"], ["md5"]), (["md5"], ["c4"]), (["c4"], ["md5", "c4"]), (["md5", "c4"], ["md5"]), (["xxh64", "md5"], ["c4"]), (["xxh64"], ["xxh64", "md5"]),
    ]
    pairs = list(dict.fromkeys((tuple(a), tuple(b)) for a, b in pairs))
    for a, b in pairs:
        a, b = list(a), list(b)
        for lname, mv in layouts.items():
            for nested in ([], ["A"]) if (thorough or (a != b and lname == "stay")) else ([],):
                if nested and lname == "newdir":
                    mv2 = [("c.txt", "N/c2.txt"), ("A/a.txt", "A/a_r.txt"), ("A/deep/x.bin", "A/N/x.bin")]
                elif nested:
                    mv2 = [("c.txt", "c renamed.txt"), ("A/a.txt", "A/a_r.txt"), ("A/deep/x.bin", "A/x.bin")]
                else:
                    mv2 = mv
                cid = f"fmt/{'+'.join(a)}>{'+'.join(b)}/{lname}/{'+'.join(nested) or '-'}"
                cases.append(scenario(cid, ("fmt", tuple(a), tuple(b), lname, tuple(nested)), deep, nested, fm1=a, renames=mv2, newfiles={"B/unrel.txt": "unrelated"}, dr=S.hargs(b), full=False))
    # repeated options and the default format
    for name, fm1, dr in [("rep", ["md5"], ["-h", "md5", "-h", "md5"]), ("rep2", ["c4", "md5"], ["-h", "md5", "-h", "c4", "-h", "md5", "-v"]), ("default", ["xxh128"], []), ("default-after-md5", ["md5"], [])]:
        for lname, mv in layouts.items():
            cases.append(scenario(f"fmt/{name}/{lname}", ("fmt", name, lname), deep, [], fm1=fm1, renames=mv, newfiles={"unrel.txt": "unrelated"}, dr=dr, full=False))

    # ---- (3) options of the -dr generation x spelling of the root
    optsets = [("plain", []), ("n", ["-n"]), ("v", ["-v"]), ("i", ["-i", "*.log"]), ("i-slash", ["-i", "B/*.log", "-i", "Junk/"]), ("ii", ["-ii", "@IGN@"]), ("meta", ["--author_name", "A B", "--comment", "moved <things> & more", "--location", "set"])]
    otree = dict(deep)
    otree.update({"B/skip.log": "log", "Junk/j.txt": "junk in ignored folder", "keep.log": "another log"})
    for oname, oargs in optsets:
        for lname, mv in layouts.items():
            allsp = ("abs", "slash", "rel", "dot", "relslash", "elsewhere")
            if thorough:
                spells = allsp
            elif oname == "plain":
                spells = allsp[0::2] if lname == "stay" else allsp[1::2]
            elif oname == "ii":
                spells = ("rel", "abs") if lname == "stay" else ("dot",)
            else:
                spells = ("abs",)
            for spell in spells:
                ig = oname in ("i", "i-slash", "ii")
                tree = otree if ig else deep
                # with ignore patterns the first generation already carries them, files matching them never enter the history
                pre_args = ["-i", "*.log", "-i", "Junk/"] if ig else []
                dr = S.hargs(["md5"]) + oargs
                cid = f"opt/{oname}/{lname}/{spell}"
                sc = scenario(cid, ("opt", oname, lname, spell), tree, [], pre=[("create", S.hargs(["md5"]) + pre_args)], renames=mv, newfiles={"B/unrel.txt": "unrelated"}, dr=dr, post=S.hargs(["md5"]), spell=spell, full=False,
                              ign_file=["*.log", "Junk/"] if oname == "ii" else None)
                sc["own_g1"] = True
                cases.append(sc)

    # ---- (4) shapes of the earlier history
    h = S.hargs
    hist = {
        "eleven": [("create", h(["md5"]))] * 12,
        "formats-vary": [("create", h(["md5"])), ("create", h(["c4"])), ("create", h(["xxh64", "md5"])), ("create", h(["sha1"]))],
        "first-n": [("create", h(["md5"]) + ["-n"]), ("create", h(["md5"]))],
        "only-n": [("create", h(["md5"]) + ["-n"])],
        "sf-only": [("sf", ["c.txt", "A/a.txt", "A/deep/x.bin"], h(["md5"]))],
        "sf-then-full": [("sf", ["c.txt"], h(["md5"])), ("create", h(["md5"]))],
        "full-then-sf": [("create", h(["md5"])), ("sf", ["c.txt", "c.txt"], h(["md5"]))],
        "failed-gen": [("create", h(["md5"])), ("fail", "c.txt", h(["md5"])), ("create", h(["md5"]))],
        "failed-last": [("create", h(["md5"])), ("fail", "A/a.txt", h(["md5"]))],
        "late-nested": [("create", h(["md5"])), ("nest", "A", h(["md5"])), ("create", h(["md5"]))],
        "other-renamed-before": [("create", h(["md5"])), ("mv", [("B/b.txt", "B/b2.txt")], h(["md5"]))],
        "other-renamed-long-before": [("create", h(["md5"])), ("mv", [("B/b.txt", "B/b2.txt"), ("z/empty.bin", "E/empty.bin")], h(["md5"]))] + [("create", h(["md5"]))] * 11,
        # the renamed files were first recorded in DIFFERENT formats and the -dr run uses neither of them
        "mixed-first-formats": [("sf", ["c.txt", "B/b.txt"], h(["md5"])), ("sf", ["A/a.txt", "A/deep/x.bin", "A/deep/notes.txt"], h(["xxh64"]))],
        "mixed-first-formats-full": [("create", h(["md5"])), ("add", {"late1.bin": "late one", "A/late2.bin": "late two"}), ("create", h(["xxh64"]))],
        "renamed-before": [("create", h(["md5"])), ("mv", [("c.txt", "c1.txt")], h(["md5"]))],
        "renamed-before-plain-between": [("create", h(["md5"])), ("mv", [("c.txt", "c1.txt")], h(["md5"])), ("create", h(["md5"]))],
        "renamed-twice-before": [("create", h(["md5"])), ("mv", [("c.txt", "c1.txt")], h(["md5"])), ("mv", [("c1.txt", "B/c1b.txt")], h(["md5"]))],
    }
    for hname, pre in hist.items():
        for lname, mv in layouts.items():
            if (hname == "eleven" and lname == "stay" or hname == "other-renamed-long-before" and lname == "newdir") and not thorough:
                continue
            if hname == "late-nested":
                mv = [("c.txt", "c renamed.txt"), ("A/a.txt", "A/a_r.txt"), ("A/deep/x.bin", "A/x.bin" if lname == "stay" else "A/N/x.bin")]
            if hname.startswith("renamed-before"):
                mv = [("c1.txt", "c renamed.txt" if lname == "stay" else "N/c2.txt")] + mv[1:]
            if hname == "renamed-twice-before":
                mv = [("B/c1b.txt", "c renamed.txt" if lname == "stay" else "N/c2.txt")] + mv[1:]
            drf = h(["md5"])
            if hname == "mixed-first-formats":
                drf = h(["c4"])
            if hname == "mixed-first-formats-full":
                drf = []  # default format (xxh128)
                mv = mv + [("late1.bin", "late1 moved.bin"), ("A/late2.bin", "B/late2.bin")]
            sc = scenario(f"hist/{hname}/{lname}", ("hist", hname, lname), deep, [], pre=pre, renames=mv, newfiles={"B/unrel.txt": "unrelated"}, dr=drf, full=True)
            sc["own_g1"] = True
            cases.append(sc)
    # ---- (4a) a run between the renames and the -dr run has already recorded (some of) the new paths: -sf on the new
    # names, or a plain create that reported the old names missing (exit 10) and sealed the new ones
    for lname, mv in layouts.items():
        for mname, mid in [
            ("sf-first", [("sf-new", [mv[0][0]], h(["md5"]))]),
            ("sf-all", [("sf-new", [], h(["md5"]))]),
            ("plain", [("plain", h(["md5"]))]),
            ("plain-twice", [("plain", h(["md5"])), ("plain", h(["md5"]))]),
        ]:
            if not thorough and mname == "plain-twice" and lname != "stay":
                continue
            sc = scenario(f"mid/{mname}/{lname}", ("mid", mname, lname), deep, [], pre=[("create", h(["md5"]))], renames=mv, newfiles={"B/unrel.txt": "unrelated"}, dr=h(["md5"]), full=True)
            sc["own_g1"] = True
            sc["mid"] = mid
            cases.append(sc)
    # rename back to the first name (one step per generation)
    for lname in ("back",):
        sc = scenario("hist/rename-back/-", ("hist", "back"), deep, [], pre=[("create", h(["md5"])), ("mv", [("c.txt", "c1.txt")], h(["md5"]))], renames=[("c1.txt", "c.txt")], dr=h(["md5"]), full=True)
        sc["own_g1"] = True
        cases.append(sc)

    # ---- (4b) a renamed file's new path (relative to its history) names another file relative to a different history
    for name, nested, mv in [
        ("outer-takes-nested-relative", ["A"], [("c.txt", "a.txt")]),
        ("outer-takes-nested-relative-deep", ["A"], [("B/b.txt", "deep/x.bin")]),
        ("nested-takes-outer-relative", ["A"], [("A/a.txt", "A/c.txt")]),
        ("nested-takes-outer-relative-dir", ["A"], [("A/deep/notes.txt", "A/B/b.txt")]),
        ("inner-takes-middle-relative", ["A/deep", "A"], [("A/deep/x.bin", "A/deep/a.txt")]),
        ("both-directions", ["A"], [("c.txt", "a.txt"), ("A/a.txt", "A/c.txt")]),
    ]:
        cases.append(scenario(f"clash/{name}", ("clash", name), deep, nested, renames=mv, newfiles={"unrel.txt": "unrelated"}, full=True))

    # ---- (4c) the same name in the other Unicode normal form is a different name
    nfd = lambda t: unicodedata.normalize("NFD", t) if unicodedata.normalize("NFD", t) != t else unicodedata.normalize("NFC", t)  # the other form
    names = S.TREES["names"]
    in_nfd_dir = [os.path.basename(f) for f in files_of(names) if f.startswith(S.NFD + "/")][0]
    for name, nested, mv, fmv in [
        ("file-nfc-to-nfd", [], [("Übung/é.txt", "Übung/" + nfd("é.txt"))], []),
        ("files-both-histories", [S.NFD], [("Übung/é.txt", "Übung/" + nfd("é.txt")), (S.NFD + "/" + in_nfd_dir, S.NFD + "/" + nfd(in_nfd_dir))], []),
        ("folder-nfc-to-nfd", [], [], [("Übung", nfd("Übung"))]),
        ("folder-nfd-to-nfc", [], [], [(S.NFD, nfd(S.NFD))]),
    ]:
        cases.append(scenario(f"norm/{name}", ("norm", name), names, nested, renames=mv, folder_moves=fmv, newfiles={"unrel.txt": "unrelated"}, full=False))

    # ---- (5) sizes around 1 MiB, contents that differ in the last byte only
    st = size_tree()
    big = [f for f in files_of(st)]
    cases.append(scenario("size/all", ("size", "all"), st, [], renames=[(f, os.path.join("moved", os.path.basename(f))) for f in big], newfiles={"big/new.bin": b"\x01" * 70000}, full=False))
    cases.append(scenario("size/twins", ("size", "twins"), st, [], renames=[("big/above.bin", "big/above_twin_2.bin"), ("big/above_twin.bin", "big/above_2.bin")], full=False))
    if thorough:
        for f in big:
            cases.append(scenario(f"size/{posix(f)}", ("size", f), st, [], fm1=["xxh64", "c4"], renames=[(f, os.path.join("E", os.path.basename(f)))], newfiles={"big/new.bin": b"\x01" * (M + 1)}, full=False))

    # ---- (6) symbolic links to files outside the root
    ltree = {"a.txt": "a", "sub/l": ("link", os.path.join("@EXT@", "ext", "target.bin")), "sub/k": ("link", os.path.join("@EXT@", "ext", "other.bin")), "sub/real.bin": "real"}
    ext = {"target.bin": "external one", "other.bin": "external two"}
    for name, mv in [("one", [("sub/l", "l renamed")]), ("both", [("sub/l", "N/l"), ("sub/k", "sub/k2"), ("sub/real.bin", "real.bin")])]:
        sc = scenario(f"link/{name}", ("link", name), ltree, [], renames=mv, newfiles={"unrel.txt": "unrelated"}, ext=ext, full=False)
        cases.append(sc)

    # ---- (7) whole folders renamed (every file below moves to another directory of the same history)
    for tname, nested, fm in [("deep", [], ("A", "A9")), ("deep", [], ("A/deep", "B/deep moved")), ("levels", [], ("L1/L2", "L1/M2")), ("prefix", [], ("Clips", "Clips_old")), ("names", [], ("sp ace", "sp  ace2")), ("deep", ["A"], ("A/deep", "A/deeper"))]:
        cases.append(scenario(safe(f"folder/{tname}/{'+'.join(nested) or '-'}/{posix(fm[0])}>{posix(fm[1])}"), ("folder", tname, tuple(nested), fm), S.TREES[tname], nested, folder_moves=[fm], newfiles={"unrel.txt": "unrelated"}, full=False))

    # ---- (7b) whole folder renamed while the -dr run uses another hash format than the one the folder was recorded with
    for tname, fm in [("deep", ("A", "A9")), ("prefix", ("Clips", "Clips_old"))]:
        cases.append(scenario(safe(f"folder-otherfmt/{tname}/{posix(fm[0])}>{posix(fm[1])}"), ("folder-otherfmt", tname, fm), S.TREES[tname], [], folder_moves=[fm],
                              newfiles={"unrel.txt": "unrelated"}, dr=S.hargs(["c4"]), full=False))

    # ---- (8) time zones: renames keep mtimes; times on both sides of a DST switch and inside the repeated hour
    zones = [("Europe/Berlin", 1729990800), ("CET-1CEST,M3.5.0,M10.5.0/3", 1729992600), ("America/St_Johns", 1710052200), ("Australia/Lord_Howe", 1712417400), ("UTC", 0)]
    for z, t in zones if thorough else zones[:3]:
        mt = {"c.txt": t, "A/a.txt": t - 3600, "A/deep/x.bin": t + 3600, "B/b.txt": t - 86400 * 180}
        cases.append(scenario(f"tz/{z}", ("tz", z), deep, [], renames=layouts["newdir"], newfiles={"unrel.txt": "unrelated"}, tz=z, mtimes=mt, full=False))

    # ---- (9) create -dr killed at its k-th file-system event, then run again
    cr_tree, cr_nested, cr_mv = deep, ["A"], [("c.txt", "N/c2.txt"), ("A/a.txt", "A/a_r.txt"), ("A/deep/x.bin", "A/N/x.bin")]
    want_crash = run.only is None or run.only.startswith("crash/")
    if want_crash:
        n = count_events(run, cr_tree, cr_nested, ["md5"], cr_mv, S.hargs(["md5"]))
        ks = list(range(1, n + 1))
        if not thorough:
            rnd2 = random.Random(run.seed + 17)
            ks = sorted(set([1, n] + rnd2.sample(ks, min(4, len(ks)))))
        for k in ks:
            cases.append(scenario(f"crash/{k}", ("crash", k), cr_tree, cr_nested, renames=cr_mv, newfiles={"unrel.txt": "unrelated"}, crash=k, full=False))
    return cases


def prepare(sc):
    """cases without an explicit first generation get `create root -h fm1` as their earlier history"""
    if not sc.get("own_g1"):
        sc["pre"] = [("create", S.hargs(sc["fm1"]))] + sc["pre"]
    return sc


def work(item):
    sc, base = item
    if sc["ext"]:
        # symlink targets are absolute paths below this world's own directory
        sc = dict(sc)
        sc["tree"] = {k: (("link", v[1].replace("@EXT@", base)) if isinstance(v, tuple) else v) for k, v in sc["tree"].items()}
    return play(prepare(sc), base)


def main():
    run = Run(
        "C17",
        rule="case = (tree, nested-history placement, earlier history, set of simultaneous renames with a kind per file "
        "[same dir / other existing dir / new dir / new nested dirs / up / empty dir / prefix sibling name / case change / NFC<->NFD / "
        "names with spaces, XML-special, U+2028, tab], 0-2 unrelated new files, options and formats of the -dr generation, root spelling); "
        "non-trivial = distinct case with at least one renamed file; each case runs create -dr, verify, diff, create, verify, "
        "verify after altering a renamed file (twice), and create without -dr on a copy",
        bound="11 trees (<= 7 entries, depth <= 4) x <= 6 nested placements (<= 3 levels); rename sets: 3 singletons per placement (every file "
        "alone under some placement), one sampled pair and triple, the full set (quick) / all subsets of size <= 3, 30 of size 4, the full set, "
        "3 kind rotations (thorough); targets are fresh, never recorded paths in the same history, contents pairwise distinct, source folders stay "
        "unless a whole folder is renamed; formats of earlier vs -dr generation: 6 pairs (quick) / 49 + 60 sampled pairs of format sets (thorough), "
        "repeated -h, default format; options -n -v -i -ii --author/--comment x 6 root spellings; 15 history shapes (12 generations before / after "
        "an earlier rename, varying formats, -n, -sf, failed generation, nested history added later, 1-2 earlier rename steps of the same file, "
        "rename back); new path equal to a path relative to another history (6); NFC<->NFD renames of files and folders (4); files of 2^20-1, 2^20, 2^20+1 bytes and twins differing in the "
        "last byte; symlinks to outside files; 6 folder renames; 3-5 time zones with mtimes around DST switches; kill points of create -dr "
        "(6 sampled / all ~45) followed by a second create -dr",
    )
    cases = [c for c in gen_cases(run) if run.want(c["cid"])]
    ids = [c["cid"] for c in cases]
    assert len(ids) == len(set(ids)), [i for i in ids if ids.count(i) > 1][:5]
    items = [(c, os.path.join(run.tmp, f"w{i}")) for i, c in enumerate(cases)]
    jobs = int(os.environ.get("VERIF_JOBS", "6") or 1)
    if jobs > 1 and len(items) > 1:
        from ascmhl import commands  # noqa: F401  (import once, before forking)

        ctx = multiprocessing.get_context("fork")
        with ctx.Pool(jobs) as pool:
            results = pool.map(work, items, chunksize=1)
    else:
        results = [work(it) for it in items]
    found, rank = [], {}
    for r in results:
        run.case(r["cid"], r["key"], sample=r["sample"])
        for what, wclass, inp in r["violations"]:
            fam = (r["cid"].split("/")[0], wclass)
            found.append((rank.get(fam, 0), len(found), r["cid"], what, wclass, inp))
            rank[fam] = rank.get(fam, 0) + 1
    # one witness of every (group, kind of failure) first: the printed list is capped
    for _, _, cid, what, wclass, inp in sorted(found, key=lambda t: t[:2]):
        run.violation(cid, what, wclass, inp=inp)
    run.finish()


if __name__ == "__main__":
    main()
