"""C08 bounded part: nested histories partition the tree and reference each other correctly.

Worlds = (tree, set of nested history roots, order in which the histories were first created (the outer root may come
first, in the middle or not at all), script of checked commands, format set, root spelling).  Every checked command
(folder seal with / without -n, with ignore patterns, `-sf` with files / folders / duplicates) is compared with an
oracle taken from the statement only:

* which histories get exactly one new generation (folder mode: the outer root and every nested root that is not
  ignored; -sf: the owners of the named files and the histories above them),
* every traversed entry is recorded in the deepest history whose root contains it (component-wise) and nowhere else,
  with the path relative to that root; a nested root is a directory entry of its parent history,
* the parent's directory entry of a nested root carries the same (format, content, structure) hashes as the child's
  own <roothash> (and, with directory hashes, the value of an independent recomputation),
* a parent manifest references exactly the new manifests of its direct children, by relative POSIX path and by the c4
  digest recomputed from the bytes of the referenced file as it is at the end of the command,
* child manifests come into existence before the manifest of their parent (observed with an audit hook on the
  open-for-write / rename events of *.mhl files; mtime as a fall-back), and - consequence for interrupted runs - at
  no kill point does a manifest on disk reference a manifest that does not exist or has other bytes.
"""
import itertools
import os
import random
import shutil
import subprocess
import sys
import tempfile

from . import scen as S
from . import world as W
from .common import REPO, Run

SEP = os.sep
NFD = "Cafe\u0301"  # decomposed
NFC = "Caf\u00e9"  # composed twin, a different name on Linux

# ------------------------------------------------------------------------------------------------ trees and candidates
TREES = {
    # chain of depth 4 below the outer root, with a side branch and a sibling
    "chain": {
        "top.bin": "0",
        "N1/one.bin": "1",
        "N1/N2/two.bin": "2",
        "N1/N2/N3/three.bin": "3",
        "N1/N2/N3/N4/four.bin": "4",
        "N1/N2/N3/N4/leaf/five.bin": "5",
        "N1/side/s.bin": "s",
        "S/s1.bin": "s1",
    },
    # names that are string prefixes of each other, at two levels, a file that shares the prefix, a same-named sub folder
    "prefix": {
        "Clips/x.mov": "x",
        "Clips/sub/z.mov": "z",
        "Clips/subtitle/t.srt": "t",
        "Clips/Clips/inner.mov": "i",
        "Clips/Clips_proxy/ip.mov": "ip",
        "Clips_proxy/y.mov": "y",
        "Clips_proxy/sub/p.mov": "p",
        "Clips.txt": "t",
        "Clips 2/c2.mov": "c2",
        "Clip/c.mov": "c",
    },
    # siblings with children (the shape of the package's fixtures, plus empty nested root, a root two levels down,
    # look-alikes of the history folder name)
    "sib": {
        "A/a.txt": "a",
        "A/AA/aa.txt": "aa",
        "A/AB/ab.txt": "ab",
        "B/b.txt": "b",
        "B/BB/bb.txt": "bb",
        "B/BB/BBB/bbb.txt": "bbb",
        "C/": "",
        "D/E/e.txt": "e",
        "D/d.txt": "d",
        "ascmhl_x/f.txt": "f",
        "xascmhl/g.txt": "g",
        "root.txt": "r",
    },
    "names": {
        "sp ace/fi le.txt": "1",
        "sp ace/in ner/x y.txt": "2",
        "\u00dcbung/\u00e9.txt": "3",
        NFD + "/d.txt": "4",
        NFC + "/c.txt": "5",
        "a&b<c>'d/q\"uote.txt": "6",
        "line\u2028sep/f\u2028.txt": "7",
        "line\u2028sep/sub/g.txt": "8",
    },
    # nothing but (empty) directories
    "hollow": {"E/": "", "F/G/": "", "F/H/": ""},
}
CAND = {
    "chain": ["N1", "N1/N2", "N1/N2/N3", "N1/N2/N3/N4", "N1/side", "S"],
    "prefix": ["Clips", "Clips_proxy", "Clip", "Clips 2", "Clips/Clips", "Clips/sub", "Clips/subtitle", "Clips/Clips_proxy", "Clips_proxy/sub"],
    "sib": ["A", "A/AA", "A/AB", "B", "B/BB", "B/BB/BBB", "C", "D", "D/E", "ascmhl_x", "xascmhl"],
    "names": ["sp ace", "sp ace/in ner", "\u00dcbung", NFD, NFC, "a&b<c>'d", "line\u2028sep", "line\u2028sep/sub"],
    "hollow": ["E", "F", "F/G", "F/H"],
}
# placements that are always run (quick and thorough)
KEY = {
    "chain": [
        [],
        ["N1"],
        ["N1", "N1/N2", "N1/N2/N3", "N1/N2/N3/N4"],
        ["N1", "N1/N2", "N1/N2/N3"],
        ["N1", "N1/N2/N3"],
        ["N1/N2/N3/N4"],
        ["N1/N2", "N1/side", "S"],
        ["N1", "N1/N2/N3/N4", "N1/side"],
    ],
    "prefix": [
        ["Clips"],
        ["Clips_proxy"],
        ["Clips", "Clips_proxy"],
        ["Clip", "Clips", "Clips 2"],
        ["Clips", "Clips/Clips", "Clips/Clips_proxy"],
        ["Clips/sub", "Clips_proxy/sub"],
        ["Clips/sub", "Clips/subtitle", "Clips"],
        ["Clips/Clips"],
    ],
    "sib": [
        ["A", "A/AA", "B", "B/BB"],
        ["A/AA", "A/AB"],
        ["B", "B/BB", "B/BB/BBB"],
        ["C"],
        ["D/E"],
        ["D", "D/E", "C"],
        ["ascmhl_x", "xascmhl", "A"],
    ],
    "names": [["sp ace", "sp ace/in ner"], [NFD, NFC], [NFD], ["a&b<c>'d", "line\u2028sep", "line\u2028sep/sub"], ["\u00dcbung", NFC]],
    "hollow": [["E"], ["F", "F/G"], ["F/G", "F/H", "E"]],
}


def L(p):
    """candidate / tree paths are written with '/', the world uses os.sep"""
    return p.replace("/", SEP)


# ------------------------------------------------------------------------------------------------ observation of writes
_REC = None


def _hook(ev, args):
    if _REC is None:
        return
    try:
        if ev == "os.rename":
            p = args[1]
        elif ev == "open":
            p = args[0]
            fl = args[2] if len(args) > 2 and isinstance(args[2], int) else 0
            if not (fl & (os.O_WRONLY | os.O_RDWR)):
                return
        else:
            return
        if isinstance(p, bytes):
            p = os.fsdecode(p)
        if isinstance(p, str) and p.endswith(".mhl"):
            _REC.append((ev, os.path.normpath(os.path.abspath(p))))
    except Exception:
        pass


sys.addaudithook(_hook)


def run_observed(name, args, cwd=None):
    """run a command and return (exit, output, exception, [paths of *.mhl files in the order they were brought into
    existence or opened for writing])"""
    global _REC
    _REC = []
    try:
        code, out, exc = W.run(name, args, cwd=cwd)
    finally:
        ev, _REC = _REC, None
    return code, out, exc, ev


# ------------------------------------------------------------------------------------------------ oracle helpers
def hroot(root, h):
    return os.path.join(root, h) if h else root


def parent_of(h, roots):
    best = ""
    for r in roots:
        if r != h and h.startswith(r + SEP) and len(r) > len(best):
            best = r
    return best


def ancestors(h, roots):
    out = []
    while h != "":
        h = parent_of(h, roots)
        out.append(h)
    return out


def rel_to(e, h):
    return e if h == "" else e[len(h) + 1 :]


def posix(p):
    return p.replace(SEP, "/")


def expect_folder(root, roots, patterns):
    """(histories that must get a generation, {history: {relative posix path: 'f'|'d'}})"""
    spec = W.spec_of(patterns)
    live = [r for r in roots if not W.ignored(r, spec)]
    gen = [""] + live
    recs = {h: {} for h in gen}
    for e, kind in W.visible_tree(root, patterns).items():
        if e in live:
            p = parent_of(e, live)
            recs[p][posix(rel_to(e, p))] = "d"
        else:
            h = W.owner_of(e, live)
            recs[h][posix(rel_to(e, h))] = kind
    return gen, recs


def expect_sf(root, roots, patterns, sel):
    """sel: root-relative paths of files or folders (folders stand for the files below them)"""
    files = set()
    for s in sel:
        p = os.path.join(root, s)
        if os.path.isdir(p):
            for e, k in W.visible_tree(p, patterns).items():
                if k == "f":
                    files.add(os.path.join(s, e))
        else:
            files.add(s)
    gen = set()
    recs = {}
    for f in files:
        h = W.owner_of(f, roots)
        recs.setdefault(h, {})[posix(rel_to(f, h))] = "f"
        gen.add(h)
        gen.update(ancestors(h, roots))
    for h in gen:
        recs.setdefault(h, {})
    return sorted(gen), recs


def c4_of_file(path):
    with open(path, "rb") as f:
        return W.c4_of_bytes(f.read())


def check_step(run, cid, step, root, roots, before, events, gen, recs, fmts, dirhash, patterns, mode, inp):
    """compare the generation(s) written by one command with the expectation. Returns number of violations added."""
    n0 = len(run.violations)
    tag = f"{mode}"

    def bad(what, wclass):
        run.violation(cid, f"[step {step}] {what}", f"{tag}/{wclass}", inp=inp)

    hist = [""] + list(roots)
    new = {}
    for h in hist:
        now = W.manifests(hroot(root, h))
        new[h] = [m for m in now if m not in before.get(h, [])]
    # ---- which histories got a generation
    man = {}
    for h in hist:
        want = 1 if h in gen else 0
        if len(new[h]) != want:
            bad(
                f"history '{h or '.'}' got {len(new[h])} new manifest(s) {[os.path.basename(x) for x in new[h]]}, expected {want} "
                f"(histories expected to get a generation: {[g or '.' for g in gen]})",
                "generation-set",
            )
        if len(new[h]) == 1:
            try:
                man[h] = W.read_manifest(new[h][0])
            except Exception as e:  # unreadable manifest
                bad(f"new manifest {new[h][0]} cannot be read: {e!r}", "unreadable")
    # ---- partition: records of every new manifest
    got = {}
    for h, m in man.items():
        g = {}
        for r in m["records"]:
            p = r["path"]
            if p in g:
                bad(f"history '{h or '.'}': path {p!r} recorded twice in one generation", "duplicate-record")
            g[p] = r
            if p is None or os.path.isabs(p) or p == ".." or p.startswith("../") or "/../" in p or p.startswith("./"):
                bad(f"history '{h or '.'}': record path {p!r} is not relative to the history root", "path-form")
        got[h] = g
        want = recs.get(h, {})
        missing = sorted(set(want) - set(g))
        extra = sorted(set(g) - set(want))
        if missing:
            # say where they went instead, if anywhere
            where = {}
            for p in missing[:4]:
                full = posix(os.path.join(h, p)) if h else p
                for h2, m2 in man.items():
                    for r2 in m2["records"]:
                        if h2 != h and (posix(os.path.join(h2, r2["path"])) if h2 else r2["path"]) == full:
                            where[p] = f"found in history '{h2 or '.'}' as {r2['path']!r}"
            bad(f"history '{h or '.'}' (deepest root containing them) does not record {missing[:6]} {where or ''}", "missing-record")
        if extra:
            bad(f"history '{h or '.'}' records {extra[:6]} which belong to another history or are not in the tree (expected {sorted(want)[:8]})", "extra-record")
        for p, k in want.items():
            r = g.get(p)
            if r is None:
                continue
            if (k == "d") != r["is_dir"]:
                bad(f"history '{h or '.'}': {p!r} recorded as {'directory' if r['is_dir'] else 'file'}, it is a {'directory' if k == 'd' else 'file'}", "kind")
                continue
            if k == "f":
                fp = os.path.join(hroot(root, h), p.replace("/", SEP))
                have = {e["format"]: e["digest"] for e in r["entries"]}
                for f in fmts:
                    d = W.file_digest(fp, f)
                    if have.get(f) != d:
                        bad(f"history '{h or '.'}': {p!r} {f} digest {have.get(f)} but the file at that path relative to the history root has {d}", "digest")
    # ---- nested roots as directory entries of their parent with the child's own root hash
    if mode == "folder":
        live = [h for h in gen if h != ""]
        indep = {}
        for c in live:
            p = parent_of(c, live)
            if c not in man or p not in man:
                continue
            prec = got[p].get(posix(rel_to(c, p)))
            if prec is None or not prec["is_dir"]:
                continue  # reported above
            pe = {e["format"]: (e["digest"], e["structure"]) for e in prec["entries"]}
            ce = {e["format"]: (e["digest"], e["structure"]) for e in (man[c]["roothash"] or [])}
            if pe != ce:
                bad(f"directory entry {posix(rel_to(c, p))!r} in history '{p or '.'}' has hashes {pe}, the root hash of history '{c}' is {ce}", "root-hash-copy")
            if dirhash:
                for f in fmts:
                    if f not in indep:
                        indep[f] = W.dir_hashes(root, patterns, f)
                    if f not in ce:
                        bad(f"history '{c}': no {f} root hash although directory hashes were requested", "root-hash-missing")
                    elif ce[f] != indep[f][c]:
                        bad(f"history '{c}': root hash {f} {ce[f]}, recomputed from the folder: {indep[f][c]}", "root-hash-value")
    # ---- references: exactly the new manifests of the direct children, c4 of the final bytes
    for h, m in man.items():
        hr = hroot(root, h)
        want = []
        for c in gen:
            if c != "" and c != h and parent_of(c, [g for g in gen if g != ""]) == h and len(new.get(c, [])) == 1:
                want.append((posix(os.path.relpath(new[c][0], hr)), c4_of_file(new[c][0])))
        have = [(a, b) for a, b in m["references"]]
        if sorted(have) != sorted(want):
            hp = {a for a, _ in have}
            wp = {a for a, _ in want}
            if hp != wp or len(have) != len(want):
                bad(f"manifest of history '{h or '.'}' references {sorted(a for a, _ in have)}, expected the new manifests of its direct children {sorted(wp)}", "reference-path")
            else:
                d = [(a, b, dict(want)[a]) for a, b in have if dict(want)[a] != b]
                bad(f"manifest of history '{h or '.'}': reference c4 differs from the digest of the referenced file's final bytes: {d[:2]}", "reference-digest")
        for a, b in have:
            t = os.path.join(hr, a.replace("/", SEP)) if a else None
            if t and not os.path.isfile(t):
                bad(f"manifest of history '{h or '.'}' references {a!r}, no such file", "reference-dangling")
    # ---- order: children before parents
    first, last = {}, {}
    for i, (_, p) in enumerate(events):
        first.setdefault(p, i)
        last[p] = i
    live = [g for g in gen if g != ""]
    for c in live:
        p = parent_of(c, live)
        if len(new.get(c, [])) != 1 or len(new.get(p, [])) != 1:
            continue
        fc, fp = os.path.normpath(new[c][0]), os.path.normpath(new[p][0])
        if fc in first and fp in first:
            if not last[fc] < first[fp]:
                bad(
                    f"manifest of parent history '{p or '.'}' came into existence (write/rename event {first[fp]}) before the manifest of its child "
                    f"'{c}' was final (events {first[fc]}..{last[fc]})",
                    "write-order",
                )
        elif os.stat(fc).st_mtime_ns > os.stat(fp).st_mtime_ns:
            bad(f"manifest of child history '{c}' was modified after that of its parent '{p or '.'}'", "write-order")
    return len(run.violations) - n0


# ------------------------------------------------------------------------------------------------ worlds
def spelled(root, tmp, spell, first_dir):
    """(root argument, cwd) for a root spelling"""
    if spell == "slash":
        return root + SEP, None
    if spell == "rel":
        return os.path.basename(root), tmp
    if spell == "dot":
        return ".", root
    if spell == "dotdot" and first_dir:
        return "..", os.path.join(root, first_dir)
    if spell == "dotslash":
        return "." + SEP + os.path.basename(root) + SEP, tmp
    return root, None


class World:
    def __init__(self, run, cid, tree, idx):
        self.run, self.cid = run, cid
        self.tmp = os.path.join(run.tmp, f"w{idx}")
        self.root = os.path.join(self.tmp, "t")
        W.build(self.root, {L(k): v for k, v in TREES[tree].items()})
        self.tree = tree
        self.patterns = list(W.DEFAULT_IGNORE)
        self.step = 0
        self.first_dir = sorted(d for d in os.listdir(self.root) if os.path.isdir(os.path.join(self.root, d)))[0] if any(os.path.isdir(os.path.join(self.root, d)) for d in os.listdir(self.root)) else None

    def roots(self):
        return W.nested_roots(self.root)

    def setup_create(self, h, fmts, extra=()):
        code, out, exc = W.run("create", [hroot(self.root, h)] + S.hargs(fmts) + list(extra))
        if code != 0 or exc is not None:
            self.run.violation(self.cid, f"creating the history at '{h or '.'}' exits {code} ({exc!r}): {out[-300:]}", "setup/exit", inp={"history": h})
            return False
        return True

    def before(self):
        return {h: W.manifests(hroot(self.root, h)) for h in [""] + self.roots()}

    def folder(self, fmts, dirhash=True, ignore=(), ignore_file=None, spell="abs", ok_codes=(0,)):
        self.step += 1
        roots = self.roots()
        before = self.before()
        arg, cwd = spelled(self.root, self.tmp, spell, self.first_dir)
        args = [arg] + S.hargs(fmts) + ([] if dirhash else ["-n"])
        for p in ignore:
            args += ["-i", p]
        newpat = list(ignore)
        if ignore_file is not None:
            fn = os.path.join(self.tmp, f"ign{self.step}.txt")
            with open(fn, "w") as f:
                f.write("\n".join(ignore_file) + "\n")
            args += ["-ii", fn]
            newpat += list(ignore_file)
        for p in newpat:
            if p not in self.patterns:
                self.patterns.append(p)
        code, out, exc, ev = run_observed("create", args, cwd=cwd)
        inp = {"args": args[1:], "cwd": cwd, "nested": roots, "patterns": self.patterns[3:]}
        if exc is not None or code not in ok_codes:
            self.run.violation(self.cid, f"[step {self.step}] create {args[1:]} exits {code} ({exc!r}): {out[-300:]}", "folder/exit", inp=inp)
            if exc is not None:
                return False
        gen, recs = expect_folder(self.root, roots, self.patterns)
        return check_step(self.run, self.cid, self.step, self.root, roots, before, ev, gen, recs, fmts, dirhash, self.patterns, "folder", inp) == 0

    def sf(self, fmts, sel, how="abs", dup=False, ok_codes=(0,)):
        """sel: root-relative paths; how: abs | relcwd (paths relative to a cwd that is not the root) | relroot"""
        self.step += 1
        roots = self.roots()
        before = self.before()
        arg, cwd = self.root, None
        names = [os.path.join(self.root, s) for s in sel]
        if how == "relcwd":
            cwd = self.tmp
            arg = "t"
            names = [os.path.join("t", s) for s in sel]
        elif how == "relroot":
            cwd = self.root
            arg = "."
            names = [("." + SEP + s) if i % 2 else s for i, s in enumerate(sel)]
        elif how == "inside" and self.first_dir:
            cwd = os.path.join(self.root, self.first_dir)
            names = [os.path.relpath(os.path.join(self.root, s), cwd) for s in sel]
        args = [arg] + S.hargs(fmts)
        for n in names:
            args += ["-sf", n]
        if dup:
            args += ["-sf", names[0]]
        code, out, exc, ev = run_observed("create", args, cwd=cwd)
        inp = {"args": args[1:], "cwd": cwd, "nested": roots}
        if exc is not None or code not in ok_codes:
            self.run.violation(self.cid, f"[step {self.step}] create {args[1:]} exits {code} ({exc!r}): {out[-300:]}", "sf/exit", inp=inp)
            if exc is not None:
                return False
        gen, recs = expect_sf(self.root, roots, self.patterns, sel)
        return check_step(self.run, self.cid, self.step, self.root, roots, before, ev, gen, recs, fmts, False, self.patterns, "sf", inp) == 0

    def files(self):
        return sorted(e for e, k in W.visible_tree(self.root, self.patterns).items() if k == "f")

    def dirs(self):
        return sorted(e for e, k in W.visible_tree(self.root, self.patterns).items() if k == "d")


def orders_for(nested, tier, rnd, pi=0):
    """creation orders: sequences over nested roots and '' (the outer root, optional)"""
    n = len(nested)
    if n == 0:
        return [[], [""]]
    perms = list(itertools.permutations(nested))
    if tier == "thorough":
        if len(perms) > 6:
            perms = rnd.sample(perms, 8)
        out = [list(p) for p in perms]
        extra = 1 if n <= 3 else 3
        for p in rnd.sample(perms, min(extra, len(perms))):
            out.append([""] + list(p))
        for p in rnd.sample(perms, min(extra, len(perms))):
            k = rnd.randrange(1, n + 1)
            out.append(list(p[:k]) + [""] + list(p[k:]))
        return out
    srt = sorted(nested)
    if n == 1:
        return [srt, [""] + srt]
    p1, p2 = list(rnd.choice(perms)), list(rnd.choice(perms))
    k = rnd.randrange(1, n + 1)
    four = [srt, [""] + p1, srt[::-1], p2[:k] + [""] + p2[k:]]
    return four[:3] if pi % 2 == 0 else four[1:]


def pick_sf(w, rnd, roots):
    """selections of files for -sf: the deepest file of the deepest history, a file outside every nested history
    (if any), two files of different histories"""
    files = w.files()
    if not files:
        return []
    sels = []
    deep = max(files, key=lambda f: (len(W.owner_of(f, roots).split(SEP)) if W.owner_of(f, roots) else 0, f.count(SEP), f))
    sels.append([deep])
    outer = [f for f in files if W.owner_of(f, roots) == ""]
    if outer:
        sels.append([rnd.choice(outer)])
    owners = {}
    for f in files:
        owners.setdefault(W.owner_of(f, roots), []).append(f)
    if len(owners) > 1:
        hs = rnd.sample(sorted(owners), 2)
        sels.append([rnd.choice(owners[hs[0]]), rnd.choice(owners[hs[1]])])
    return sels


FSETS = [["md5"], ["xxh64", "c4"], ["c4"], ["md5", "sha1"], ["xxh128"], ["xxh3", "md5"]]
SPELLS = ["abs", "slash", "rel", "dot", "dotdot", "dotslash"]
HOWS = ["abs", "relcwd", "relroot", "inside"]


def scripted_world(run, cid, tree, nested, order, vi, rnd, widx):
    """build the world, then run and check the script selected by the variant index vi"""
    w = World(run, cid, tree, widx)
    fm_child = FSETS[vi % len(FSETS)]
    fm_outer = FSETS[(vi // 2) % len(FSETS)] if vi % 3 == 0 else fm_child  # every third world: other formats above
    for h in order:
        if not w.setup_create(L(h), fm_child if h else fm_outer):
            return
    roots = w.roots()
    spell = SPELLS[vi % len(SPELLS)]
    dh_first = vi % 2 == 0
    script = vi % 4
    if script in (0, 1):
        # folder, -sf, folder (other -n setting)
        w.folder(fm_outer, dirhash=dh_first, spell=spell)
        for i, sel in enumerate(pick_sf(w, rnd, roots)[: 2 if run.tier == "quick" else 3]):
            w.sf(fm_outer, sel, how=HOWS[(vi + i) % len(HOWS)], dup=(vi + i) % 3 == 0)
        w.folder(fm_child, dirhash=not dh_first, spell=SPELLS[(vi + 3) % len(SPELLS)])
    elif script == 2:
        # -sf first (outer root possibly without any history yet), then folder; then a new file and a new nested
        # history appear and the folder is sealed again
        sels = pick_sf(w, rnd, roots)
        for i, sel in enumerate(sels[:2]):
            w.sf(fm_outer, sel, how=HOWS[(vi + i + 1) % len(HOWS)], dup=i == 0)
        w.folder(fm_outer, dirhash=dh_first, spell=spell)
        late = [c for c in CAND[tree] if L(c) not in roots and os.path.isdir(os.path.join(w.root, L(c)))]
        if late:
            c = L(rnd.choice(late))
            W.build(w.root, {os.path.join(c, "late file.bin"): "late"})
            if w.setup_create(c, fm_child):
                w.folder(fm_outer, dirhash=not dh_first, spell="abs")
    else:
        # folder with an ignore pattern that hides one nested history (if any), then a plain folder seal (the pattern
        # persists), then -sf next to the hidden history
        w.folder(fm_outer, dirhash=dh_first, spell=spell)
        if roots:
            victim = rnd.choice(roots)
            style = (vi // 4) % 4
            base = os.path.basename(victim)
            if style == 0:
                kw = {"ignore": [base]}
            elif style == 1:
                kw = {"ignore": ["/" + posix(victim) + "/"]}
            elif style == 2:
                kw = {"ignore_file": [posix(victim), "*.nomatch"]} if SEP in victim else {"ignore_file": ["/" + posix(victim)]}
            else:
                kw = {"ignore": [posix(victim) + "/"], "ignore_file": ["#comment-like", "never/there"]}
            w.folder(fm_outer, dirhash=not dh_first, **kw)
            w.folder(fm_outer, dirhash=dh_first, spell=SPELLS[(vi + 1) % len(SPELLS)])
            sels = pick_sf(w, rnd, w.roots())
            spec = W.spec_of(w.patterns)
            sels = [s for s in sels if all(not W.ignored(f, spec) for f in s)]
            if sels:
                w.sf(fm_outer, sels[0], how=HOWS[vi % len(HOWS)])
        else:
            w.folder(fm_outer, dirhash=not dh_first, ignore=["*.txt"])
    shutil.rmtree(w.tmp, ignore_errors=True)


# ------------------------------------------------------------------------------------------------ special scenarios
def special_cases(run, rnd, widx0):
    widx = widx0

    def nxt():
        nonlocal widx
        widx += 1
        return widx

    # many generations: > 11 generations in every history, alternating modes and formats, checked each round
    cid = "special/generations12"
    if run.want(cid):
        w = World(run, cid, "chain", nxt())
        for h in ["N1/N2", "N1", "N1/N2/N3"]:
            w.setup_create(L(h), ["md5"])
        run.case(cid, ("special", "generations12"), sample={"case": cid})
        for g in range(12 if run.tier == "quick" else 22):
            fm = FSETS[g % len(FSETS)]
            if g % 4 == 3:
                w.sf(fm, [L("N1/N2/N3/N4/four.bin"), L("N1/one.bin")], how=HOWS[g % len(HOWS)])
                w.folder(fm, dirhash=True)
            else:
                w.folder(fm, dirhash=g % 3 != 1, spell=SPELLS[g % len(SPELLS)])
    # a failed generation (exit 11) and a generation with a missing file (exit 15 class) still partition correctly
    cid = "special/failed-generation"
    if run.want(cid):
        w = World(run, cid, "sib", nxt())
        for h in ["B/BB", "B", "A"]:
            w.setup_create(L(h), ["md5"])
        run.case(cid, ("special", "failed"), sample={"case": cid})
        w.folder(["md5"])
        with open(os.path.join(w.root, L("B/BB/bb.txt")), "w") as f:
            f.write("changed")
        w.folder(["md5"], ok_codes=(11,))
        w.folder(["md5"], dirhash=False, ok_codes=(11,))
        w.sf(["md5"], [L("B/BB/bb.txt"), L("A/a.txt")], ok_codes=(11,))
        w.sf(["md5"], [L("B/b.txt")])
    # patterns that tell prefix-named histories apart; patterns accumulate over generations (a negation that re-includes
    # a history root would also re-include its ascmhl folder - that is the ignore property's business, not used here)
    cid = "special/prefix-patterns"
    if run.want(cid):
        w = World(run, cid, "prefix", nxt())
        for h in ["Clips_proxy", "Clips", "Clips/sub"]:
            w.setup_create(L(h), ["xxh64"])
        run.case(cid, ("special", "prefix-patterns"), sample={"case": cid})
        w.folder(["xxh64"])
        w.folder(["xxh64"], ignore=["/Clips"])  # hides Clips and Clips/sub, not Clips_proxy, Clips.txt, Clips 2
        w.folder(["xxh64"], dirhash=False)
        w.folder(["xxh64"], ignore=["Clips_proxy/"])  # the root of Clips_proxy is not matched, everything below it is
        w.folder(["xxh64"], ignore=["sub", "*.nothing"], dirhash=False)  # hides Clips_proxy/sub (Clips/sub is hidden already)
        w.folder(["xxh64"], ignore=["Clips*"])  # hides everything prefix-named (not Clip)
    # -sf with a folder that is a nested root / contains nested roots; same file twice; repeated -h
    cid = "special/sf-folders"
    if run.want(cid):
        w = World(run, cid, "sib", nxt())
        for h in ["A/AA", "B/BB/BBB", "B"]:
            w.setup_create(L(h), ["md5"])
        run.case(cid, ("special", "sf-folders"), sample={"case": cid})
        w.sf(["md5", "md5"], ["A"])
        w.sf(["md5"], [L("B/BB"), L("B/BB/BBB/bbb.txt")], how="relcwd")
        w.sf(["c4", "md5", "c4"], ["B", "root.txt", L("A/AA")], how="relroot", dup=True)
        w.folder(["md5"])
        w.sf(["md5"], [L("D/E")], how="inside")
    # files around 1 MiB, empty files and a symbolic link to a file inside nested histories
    cid = "special/sizes-links"
    if run.want(cid):
        w = World(run, cid, "hollow", nxt())
        M = 1 << 20
        W.build(
            w.root,
            {
                L("F/G/below.bin"): b"\x01" * (M - 1),
                L("F/G/at.bin"): b"\x02" * M,
                L("F/above.bin"): b"\x03" * (M + 1),
                L("E/empty.bin"): b"",
                L("F/H/link.bin"): ("link", os.path.join("..", "G", "at.bin")),
                "outer-empty.bin": b"",
            },
        )
        for h in ["F/G", "E", "F"]:
            w.setup_create(L(h), ["md5"])
        run.case(cid, ("special", "sizes-links"), sample={"case": cid})
        w.folder(["md5", "xxh64"])
        w.sf(["md5"], [L("F/G/at.bin"), L("E/empty.bin")])
        w.folder(["c4"], dirhash=False, spell="dotdot")
    # a nested history that is created inside a folder that older outer generations already recorded, with renamed
    # sibling that makes one history name a prefix of another after the fact
    cid = "special/late-prefix"
    if run.want(cid):
        w = World(run, cid, "prefix", nxt())
        w.setup_create("", ["md5"])
        run.case(cid, ("special", "late-prefix"), sample={"case": cid})
        w.folder(["md5"])
        w.setup_create("Clips", ["md5"])
        w.folder(["md5"])
        os.rename(os.path.join(w.root, "Clip"), os.path.join(w.root, "Clips_"))
        W.build(w.root, {L("Clips_/ascmhl_note.txt"): "n"})
        w.setup_create("Clips_", ["md5"])
        w.folder(["md5"], ok_codes=(0, 10))  # the files recorded below Clip/ are gone: completeness error is legitimate
        w.sf(["md5"], [L("Clips_/c.mov"), L("Clips_proxy/y.mov"), L("Clips/x.mov")])
    return widx


# ------------------------------------------------------------------------------------------------ interrupted runs
CRASH_CHILD = r"""
import os, sys
from bounded import common  # puts the repository under test first on sys.path
K = int(sys.argv[1]); root = sys.argv[2]; args = sys.argv[3:]
n = [0]
def hook(ev, a):
    try:
        if ev == "open":
            p = a[0]; fl = a[2] if len(a) > 2 and isinstance(a[2], int) else 0
            if not (fl & (os.O_WRONLY | os.O_RDWR)):
                return
        elif ev in ("os.rename", "os.mkdir", "os.remove"):
            p = a[1] if ev == "os.rename" else a[0]
        else:
            return
        if isinstance(p, bytes):
            p = os.fsdecode(p)
        if not isinstance(p, str) or not os.path.abspath(p).startswith(root):
            return
    except Exception:
        return
    n[0] += 1
    if n[0] == K:
        os._exit(77)
from ascmhl import commands
sys.addaudithook(hook)
try:
    commands.create.main(args, standalone_mode=True)
except SystemExit as e:
    pass
sys.stdout.write("\nEVENTS=%d\n" % n[0])
"""


def references_sound(root):
    """every readable manifest below root references only files that exist with exactly the recorded c4"""
    out = []
    for h in [""] + W.nested_roots(root):
        hr = hroot(root, h)
        for mf in W.manifests(hr):
            try:
                m = W.read_manifest(mf)
            except Exception:
                continue
            for a, b in m["references"]:
                t = os.path.join(hr, (a or "").replace("/", SEP))
                if not os.path.isfile(t):
                    out.append(f"{os.path.relpath(mf, root)} references {a!r} which does not exist")
                elif c4_of_file(t) != b:
                    out.append(f"{os.path.relpath(mf, root)} references {a!r} with c4 {b[:12]}.., the file has {c4_of_file(t)[:12]}..")
    return out


def crash_cases(run, rnd, widx):
    env = dict(os.environ)
    env["PYTHONPATH"] = os.pathsep.join(["/verif", REPO])
    env["VERIF_REPO"] = REPO
    scenarios = [("folder", "chain", ["N1", "N1/N2", "S"], []), ("sf", "sib", ["B", "B/BB", "A"], [L("B/BB/bb.txt"), L("A/a.txt")])]
    for mode, tree, nested, sel in scenarios:
        tdir = os.path.join(run.tmp, f"crash_{mode}")
        troot = os.path.join(tdir, "t")
        if not any(run.want(f"crash/{mode}/{k}") for k in range(0, 200)):
            continue
        W.build(troot, {L(k): v for k, v in TREES[tree].items()})
        for h in nested:
            W.run("create", [os.path.join(troot, L(h)), "-h", "md5"])
        W.run("create", [troot, "-h", "md5"])

        def launch(k, root):
            a = [root, "-h", "md5"]
            for s in sel:
                a += ["-sf", os.path.join(root, s)]
            return subprocess.run([sys.executable, "-c", CRASH_CHILD, str(k), root] + a, env=env, cwd="/verif", capture_output=True, text=True)

        probe = os.path.join(tdir, "probe", "t")
        shutil.copytree(troot, probe, symlinks=True)
        r = launch(0, probe)
        total = 0
        for line in r.stdout.splitlines():
            if line.startswith("EVENTS="):
                total = int(line[7:])
        if total == 0:
            run.violation(f"crash/{mode}/0", f"the uninterrupted run in a subprocess reported no write events: {r.stdout[-200:]} {r.stderr[-300:]}", "crash/harness")
            continue
        ks = list(range(1, total + 1))
        if run.tier == "quick" and len(ks) > 6 and run.only is None:
            ks = sorted(rnd.sample(ks, 6))
        for k in ks:
            cid = f"crash/{mode}/{k}"
            if not run.want(cid):
                continue
            widx += 1
            root = os.path.join(tdir, f"k{k}", "t")
            shutil.copytree(troot, root, symlinks=True)
            r = launch(k, root)
            run.case(cid, ("crash", mode, k), sample={"case": cid, "killed": r.returncode == 77})
            inp = {"kill_at_event": k, "of": total, "mode": mode, "nested": nested}
            for msg in references_sound(root):
                run.violation(cid, f"after a kill at write event {k}/{total}: {msg} (a parent was written before its child was final)", "crash/reference", inp=inp)
            # the next seal of the folder, if it is accepted, must again satisfy the statement
            roots = W.nested_roots(root)
            before = {h: W.manifests(hroot(root, h)) for h in [""] + roots}
            code, out, exc, ev = run_observed("create", [root, "-h", "md5"])
            if code == 0 and exc is None:
                gen, recs = expect_folder(root, roots, list(W.DEFAULT_IGNORE))
                check_step(run, cid, 2, root, roots, before, ev, gen, recs, ["md5"], True, list(W.DEFAULT_IGNORE), "folder", inp)
                for msg in references_sound(root):
                    run.violation(cid, f"after the seal that followed a kill at event {k}: {msg}", "crash/reference-after", inp=inp)
            shutil.rmtree(os.path.dirname(root), ignore_errors=True)
    return widx


# ------------------------------------------------------------------------------------------------ main
def placements(tree, tier, rnd):
    out = [list(p) for p in KEY[tree]]
    cand = CAND[tree]
    if tier == "thorough":
        for r in (1, 2, 3):
            combos = [list(c) for c in itertools.combinations(cand, r)]
            if len(combos) > 60:
                combos = rnd.sample(combos, 60)
            for c in combos:
                if c not in out:
                    out.append(c)
        for _ in range(6):
            c = sorted(rnd.sample(cand, min(len(cand), rnd.choice([4, 5]))))
            if c not in out:
                out.append(c)
    else:
        for _ in range(4):
            c = sorted(rnd.sample(cand, min(len(cand), rnd.choice([2, 3, 4]))))
            if c not in out:
                out.append(c)
    return out


def main():
    # hundreds of small worlds: a memory file system (if there is one) keeps the run short; everything stays below run.tmp
    if "TMPDIR" not in os.environ and os.path.isdir("/dev/shm") and os.access("/dev/shm", os.W_OK):
        tempfile.tempdir = "/dev/shm"
    run = Run(
        "C08",
        rule="world = (tree, set of nested history roots, order of first creation incl. position of the outer root, script variant = "
        "{folder/-sf/folder, -sf first + late nested history, ignore pattern hiding a nested history} x format sets x -n first/second x "
        "root spelling x -sf path spelling); every checked command of a world is compared with the statement; non-trivial = distinct "
        "(tree, placement with >= 1 nested history, order, variant); plus special scenarios (12+ generations, failed generation, prefix "
        "patterns, -sf folders / duplicates, 1 MiB files / links, late prefix sibling) and kill points of an interrupted create",
        bound="5 trees (<= 12 entries; chain of 4 nested histories below the outer root, prefix-named siblings at two levels, same-named sub "
        "folder, names with spaces / NFC + NFD twins / XML-special / U+2028, empty nested roots, tree without files), <= 4 (quick) / <= 5 "
        "(thorough) nested histories from 4-11 candidate roots; quick: fixed key placements + 4 seeded ones, 3 creation orders each; "
        "thorough: all placements of size <= 3 (at most 60 seeded per size and tree) + seeded larger ones, all permutations (8 seeded beyond 3 roots) + outer-first / outer-in-the-middle orders; "
        "6 format sets, 6 root spellings, 4 -sf path spellings; kill points: 6 seeded (quick) / all (thorough) write events of 2 commands",
    )
    rnd = random.Random(run.seed)
    widx = 0
    vi = run.seed
    for tree in TREES:
        for pi, nested in enumerate(placements(tree, run.tier, rnd)):
            for order in orders_for(nested, run.tier, rnd, pi):
                vi += 1
                oid = ">".join(o or "." for o in order) or "-"
                cid = f"{tree}/{'+'.join(nested) or '-'}/{oid}/v{vi % 48}"
                crnd = random.Random(f"{run.seed}/{cid}")
                if not run.want(cid):
                    continue
                widx += 1
                run.case(cid, (tree, tuple(nested), tuple(order), vi % 48) if nested else None, sample={"case": cid})
                scripted_world(run, cid, tree, nested, order, vi, crnd, widx)
    widx = special_cases(run, rnd, widx)
    crash_cases(run, rnd, widx)
    run.finish()


if __name__ == "__main__":
    main()
