"""Scenario pools shared by the bounded drivers (stated bounds are in each driver's `bound`)."""
import itertools
import os

from . import world as W

NFD = "Café"  # decomposed accent (not NFC)

TREES = {
    "flat": {"a.txt": "a", "b.txt": "b"},
    "single": {"only.bin": b"\x00\x01"},
    "emptyfolder": {},
    "onlydirs": {"E/": "", "F/G/": ""},
    "deep": {"A/a.txt": "a", "A/deep/x.bin": b"x" * 10, "A/deep/notes.txt": "n", "B/b.txt": "b", "c.txt": "c", "E/": "", "z/empty.bin": b""},
    "names": {
        "sp ace/fi le.txt": "1",
        "\u00dcbung/\u00e9.txt": "2",
        NFD + "/é.txt": "3",
        "a&b<c>'d.txt": "4",
        'q"uote.txt': "5",
        "line\u2028sep.txt": "6",
    },
    "prefix": {"Clips/x.mov": "x", "Clips_proxy/y.mov": "y", "Clips.txt": "t", "Clips/sub/z.mov": "z"},
    "case": {"CLIP.MOV": "1", "clip.mov": "2", "Reel_A/f": "3", "reel_a/f": "4"},
    "lookalike": {"ascmhl_x/f.txt": "1", "xascmhl/f.txt": "2", "my.DS_Store": "3", "sub/.DS_Store": "junk", ".DS_Store": "junk"},
    "levels": {"L1/L2/L3/clip.bin": "deep", "L1/L2/two.bin": "2", "L1/one.bin": "1", "top.bin": "0"},
}

# nested-history placements per tree: list of relative roots, created in the given order before the outer root
NESTED = {
    "flat": [[]],
    "single": [[]],
    "emptyfolder": [[]],
    "onlydirs": [[], ["E"]],
    "deep": [[], ["A"], ["A", "B"], ["A/deep", "A"], ["A", "A/deep"], ["z"]],
    "names": [[], ["sp ace"], [NFD]],
    "prefix": [[], ["Clips"], ["Clips/sub", "Clips"]],
    "case": [[], ["Reel_A"]],
    "lookalike": [[], ["ascmhl_x"]],
    "levels": [[], ["L1/L2/L3", "L1/L2", "L1"], ["L1", "L1/L2", "L1/L2/L3"], ["L1/L2"]],
}


def format_sets(tier):
    base = [["md5"], ["xxh64"], ["c4"], ["md5", "c4"], ["xxh64", "md5"]]
    if tier == "thorough":
        fm = W.FORMATS
        base = [list(c) for r in (1, 2) for c in itertools.combinations(fm, r)] + [fm]
    return base


def hargs(fmts):
    out = []
    for f in fmts:
        out += ["-h", f]
    return out


def make_world(tmp, tree, nested, fmts, name="t", extra_args=()):
    """build tree, create the nested histories (in the given order), then seal the outer root. returns root"""
    root = os.path.join(tmp, name)
    W.build(root, TREES[tree] if isinstance(tree, str) else tree)
    for nr in nested:
        code, out, exc = W.run("create", [os.path.join(root, nr)] + hargs(fmts))
        assert code == 0, (nr, code, out, exc)
    code, out, exc = W.run("create", [root] + hargs(fmts) + list(extra_args))
    return root, code, out, exc


def all_histories(root):
    return [""] + W.nested_roots(root)


def new_manifests(root, before):
    """manifests that appeared since `before` (dict history rel -> list), per history"""
    out = {}
    for h in all_histories(root):
        hp = os.path.join(root, h) if h else root
        now = W.manifests(hp)
        out[h] = [m for m in now if m not in before.get(h, [])]
    return out


def manifests_by_history(root):
    return {h: W.manifests(os.path.join(root, h) if h else root) for h in all_histories(root)}
