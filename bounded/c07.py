"""C07 bounded part: the directory / root hashes that `create` records and `verify -dh -co` prints, against the
compositional definition of the statement, on all small worlds.

Oracle (independent of the package, written from the statement):
    CH(d) = DIG(concat(sorted([dec(file digest) | dec(CH(sub)) for every non-ignored child of d])))
    SH(d) = DIG(concat(sorted([dec(DIG(utf8(name) ++ dec(file digest | SH(sub)))) for every non-ignored child of d])))
    an empty directory (or one whose children are all ignored) hashes as DIG(b"")
plus the relations the statement spells out (they are checked on the tool's own outputs, not on the oracle):
    in-place rename  -> CH of every ancestor unchanged, SH of every ancestor changed, everything else unchanged
    content edit     -> CH and SH of every ancestor changed, everything else unchanged
"""
import contextlib
import os
import random
import re
import shutil

from . import scen as S
from . import world as W
from .common import Run

FMTS = list(W.FORMATS)
MIB = 1 << 20
MAXV = 6  # violations reported per case


def blob(tag, n):
    return random.Random(f"c07/{tag}").randbytes(n)


# ------------------------------------------------------------------------------------------------ the definition
def defn(root, patterns, fmt):
    """{rel dir ('.' = root): (content hash, structure hash, number of non-ignored children)} by the statement.
    symlinked directories are not part of the statement's trees (and are never built here)."""
    spec = W.spec_of(patterns)
    H = W.DIGEST[fmt]
    res = {}

    def go(d, rel):
        cl, sl, n = [], [], 0
        for name in os.listdir(d):
            r = name if rel == "" else rel + os.sep + name
            if W.ignored(r, spec):
                continue
            p = os.path.join(d, name)
            if os.path.isdir(p) and os.path.islink(p):
                continue
            n += 1
            if os.path.isdir(p):
                c, s = go(p, r)
            else:
                with open(p, "rb") as fh:
                    c = H(fh.read())
                s = c
            cl.append(W.decode(fmt, c))
            sl.append(W.decode(fmt, H(name.encode("utf-8") + W.decode(fmt, s))))
        ch = H(b"".join(sorted(cl)))
        sh = H(b"".join(sorted(sl)))
        res[rel or "."] = (ch, sh, n)
        return ch, sh

    go(root, "")
    return res


@contextlib.contextmanager
def listdir_order(mode, seed):
    """the file system hands out directory entries in another order (the statement quantifies over any order);
    the history folder itself is left alone, its reading order is not the subject of C07"""
    if mode == "fs":
        yield
        return
    real = os.listdir

    def fake(path="."):
        names = real(path)
        try:
            base = os.path.basename(os.path.normpath(os.fspath(path)))
        except TypeError:
            return names
        if base == "ascmhl" or not names or isinstance(names[0], bytes):
            return names
        names = sorted(names)
        if mode == "rev":
            names.reverse()
        else:
            random.Random(f"{seed}/{mode}/{base}/{len(names)}").shuffle(names)
        return names

    os.listdir = fake
    try:
        yield
    finally:
        os.listdir = real


# ------------------------------------------------------------------------------------------------ observations
def short(root, p):
    return os.path.relpath(p, root)


def observed_from_manifests(root, new):
    """{rel dir below the outer root: [(where, entries)]} from the new manifests of every history"""
    obs = {}
    roothash = {}
    for h, files in new.items():
        for mf in files:
            m = W.read_manifest(mf)
            roothash[h] = m["roothash"]
            if m["roothash"] is not None:
                obs.setdefault(h or ".", []).append((f"<roothash> of {short(root, mf)}", m["roothash"]))
            for r in m["records"]:
                if r["is_dir"]:
                    rel = os.path.normpath(os.path.join(h, r["path"]))
                    obs.setdefault(rel, []).append((f"<directoryhash> {r['path']!r} of {short(root, mf)}", r["entries"]))
    return obs, roothash


DIR_RE = re.compile(r"^  calculated directory hash for (?P<p>.*)  (?P<f>md5|sha1|xxh128|xxh3|xxh64|c4): (?P<c>\S+) \(content\), (?P<s>\S+) \(structure\)$", re.S)
ROOT_RE = re.compile(r"^  calculated root hash  (?P<f>md5|sha1|xxh128|xxh3|xxh64|c4): (?P<c>\S+) \(content\), (?P<s>\S+) \(structure\)$")


def observed_from_verify(out):
    """{rel dir: [(where, entries)]} from the lines `verify -dh -co` prints"""
    obs = {}
    for line in out.split("\n"):
        m = ROOT_RE.match(line)
        if m:
            obs.setdefault(".", []).append(("stdout root line", [{"format": m["f"], "digest": m["c"], "structure": m["s"]}]))
            continue
        m = DIR_RE.match(line)
        if m:
            obs.setdefault(m["p"], []).append((f"stdout line for {m['p']!r}", [{"format": m["f"], "digest": m["c"], "structure": m["s"]}]))
    # one list of entries per directory
    return {d: [("stdout of verify -dh -co", [e for _, es in l for e in es])] for d, l in obs.items()}


class Checker:
    def __init__(self, run, cid):
        self.run, self.cid, self.n = run, cid, 0

    def bad(self, what, wclass, inp=None):
        self.n += 1
        if self.n <= MAXV:
            self.run.violation(self.cid, what, wclass, inp=inp)


def compare(ck, root, patterns, fmts, obs, wclass, only_dirs=None, inp=None):
    """every non-ignored directory must be observed, in every requested format, with the values of the definition"""
    for f in sorted(set(fmts)):
        exp = defn(root, patterns, f)
        for d, (ch, sh, nkids) in exp.items():
            if only_dirs is not None and d not in only_dirs:
                continue
            ol = obs.get(d)
            if not ol:
                ck.bad(f"{wclass}: no {f} hash observed for directory {d!r} (expected content {ch}, structure {sh})", f"{wclass}/missing-directory", inp)
                continue
            for where, ents in ol:
                got = [(e["digest"], e["structure"]) for e in ents if e["format"] == f]
                if not got:
                    ck.bad(f"{wclass}: {where}: directory {d!r} has no {f} entry although {f} was requested (formats present: {sorted(set(e['format'] for e in ents))})", f"{wclass}/format-missing", inp)
                for c, s in got:
                    tag = "empty-directory" if nkids == 0 else None
                    if c != ch:
                        ck.bad(f"{wclass}: {where}: {f} content hash of {d!r} ({nkids} children) is {c}, definition gives {ch}", f"{wclass}/{tag or 'content-hash'}", inp)
                    if s != sh:
                        ck.bad(f"{wclass}: {where}: {f} structure hash of {d!r} ({nkids} children) is {s}, definition gives {sh}", f"{wclass}/{tag or 'structure-hash'}", inp)


def check_create(ck, root, new, patterns, fmts, inp=None, wclass="create"):
    obs, roothash = observed_from_manifests(root, new)
    for h, files in new.items():
        if len(files) == 1 and roothash.get(h) is None:
            ck.bad(f"{wclass}: {short(root, files[0])} carries no <roothash> although directory hashes were requested", f"{wclass}/no-roothash", inp)
    if not new.get("", []):
        ck.bad(f"{wclass}: no new manifest for the root history", f"{wclass}/no-generation", inp)
        return
    compare(ck, root, patterns, fmts, obs, wclass, inp=inp)


def check_verify(ck, root, patterns, fmts, out, code, exc, root_only=False, inp=None, wclass="verify"):
    """fmts None: no -h given, then whatever is printed must be right and every directory must be printed at all"""
    obs = observed_from_verify(out)
    if exc is not None and not obs:
        ck.bad(f"{wclass}: verify -dh -co raised {exc!r} (exit {code}) and printed no hashes", f"{wclass}/crash", inp)
        return {}
    if fmts is None:
        fmts = sorted({e["format"] for l in obs.values() for _, es in l for e in es})
        if not fmts:
            ck.bad(f"{wclass}: verify -dh -co printed no hash at all (exit {code}): {out[-200:]!r}", f"{wclass}/nothing-printed", inp)
            return obs
    compare(ck, root, patterns, fmts, obs, wclass, only_dirs={"."} if root_only else None, inp=inp)
    if root_only:
        extra = sorted(d for d in obs if d != ".")
        if extra:
            ck.bad(f"{wclass}: -ro printed hashes of {extra[:3]}", f"{wclass}/root-only", inp)
    return obs


# ------------------------------------------------------------------------------------------------ worlds
def extra_trees(tier):
    wide = 13 if tier != "thorough" else 41
    t = {}
    t["wide"] = {f"f{i:02d}.bin": blob(f"wide{i}", 5 + i) for i in range(wide)}
    t["wide"].update({f"sub/d{i:02d}/m.bin": blob(f"widesub{i}", 9) for i in range(wide - 2)})
    t["wide"].update({"sub/f.bin": b"f", "sub/zz/": ""})
    t["dups"] = {
        "d/a.bin": "same",
        "d/b.bin": "same",
        "d/c.bin": "other",
        "twins/one/f": "1",
        "twins/two/f": "1",
        "twins/three/g": "1",
        "e.bin": b"",
        "E1/": "",
        "E2/": "",
        "n/E3/": "",
        "n/e.bin": b"",
    }
    t["sizes"] = {"big/below.bin": blob("below", MIB - 1), "big/at.bin": blob("at", MIB), "big/above.bin": blob("above", MIB + 1), "big/zero.bin": b"", "s.bin": b"s"}
    t["links"] = {"real/data.bin": "payload", "real/alias.bin": ("link", "data.bin"), "up.lnk": ("link", "real/data.bin"), "other/o.bin": "o"}
    t["order"] = {"B.txt": "1", "a.txt": "2", "_x": "3", "~z": "4", "Z/k": "5", "a/k": "6", "a.d/k": "7", "a-d/k": "8", "10": "9", "9": "10", "ä": "11", "ź": "12"}
    # one file per format whose digest starts with a zero byte (decoders that drop leading zeros, c4 ids starting "c411")
    t["zeros"] = {"plain.bin": "p"}
    for f in FMTS:
        i = 0
        while W.decode(f, W.DIGEST[f](b"zero%d" % i))[0] != 0:
            i += 1
        t["zeros"][f"z/{f}/lead0.bin"] = b"zero%d" % i
        t["zeros"][f"z/{f}/other.bin"] = f
    t["onlyignored"] = {"junk/.DS_Store": "x", "junk/in/.DS_Store": "y", "keep/.DS_Store": "x", "keep/k.txt": "k"}
    nested = {
        "wide": [[], ["sub"]],
        "dups": [[], ["twins"], ["twins/one", "twins"], ["E1", "n"]],
        "sizes": [[]],
        "links": [[], ["real"]],
        "order": [[], ["a"]],
        "onlyignored": [[], ["junk"]],
        "zeros": [[], ["z/c4"]],
    }
    return t, nested


QUICK_SETS = [["md5"], ["xxh64"], ["c4"], ["md5", "c4"], ["xxh64", "md5"], list(FMTS), ["sha1", "xxh3", "xxh128"], ["c4", "xxh128"], ["sha1"], ["xxh3", "c4"]]


def spell_root(tmp, root, spell):
    """-> (argument, cwd)"""
    if spell == "slash":
        return root + os.sep, None
    if spell == "rel":
        return os.path.basename(root), tmp
    if spell == "dot":
        return ".", root
    if spell == "dotslash":
        return "./" + os.path.basename(root) + "/", tmp
    return root, None


def ancestors(rel):
    parts = rel.split(os.sep)
    return ["."] + [os.sep.join(parts[:k]) for k in range(1, len(parts))]


def flat(obs):
    """{(dir, fmt): (content, structure)} of an observation"""
    out = {}
    for d, l in obs.items():
        for _, ents in l:
            for e in ents:
                out[(d, e["format"])] = (e["digest"], e["structure"])
    return out


def apply_op(root, op):
    kind = op[0]
    if kind == "rename":
        os.rename(os.path.join(root, op[1]), os.path.join(root, op[2]))
    elif kind == "edit":
        p = os.path.join(root, op[1])
        st = os.stat(p)
        with open(p, "rb") as fh:
            data = fh.read()
        mode = op[2]
        if mode == "append":
            data = data + b"!"
        elif mode == "empty":
            data = b"" if data else b"\x00"
        else:  # 'keep' (same size, same mtime) / 'last' (flip the last byte, same size and mtime)
            if not data:
                data = b"\x00"
            elif mode == "last":
                data = data[:-1] + bytes([data[-1] ^ 0x01])
            else:
                data = bytes([data[0] ^ 0x80]) + data[1:]
        with open(p, "wb") as fh:
            fh.write(data)
        if mode in ("keep", "last"):
            os.utime(p, ns=(st.st_atime_ns, st.st_mtime_ns))
    elif kind == "write":
        p = os.path.join(root, op[1])
        os.makedirs(os.path.dirname(p), exist_ok=True)
        with open(p, "wb") as fh:
            fh.write(op[2] if isinstance(op[2], bytes) else op[2].encode("utf-8"))
    elif kind == "delete":
        p = os.path.join(root, op[1])
        shutil.rmtree(p) if os.path.isdir(p) and not os.path.islink(p) else os.unlink(p)
    elif kind == "mkdir":
        os.makedirs(os.path.join(root, op[1]), exist_ok=True)
    else:
        raise ValueError(op)


def rename_target(rel, k):
    d, n = os.path.split(rel)
    new = [("zz_" + n), ("0_" + n), (n + ".renamed"), (n.swapcase() if n.swapcase() != n else n + "_")][k % 4]
    return os.path.join(d, new) if d else new


def tree_ops(spec, nested):
    """every in-place rename of a file or folder and every content edit that the tree admits"""
    files = sorted(k for k, v in spec.items() if not k.endswith("/") and not isinstance(v, tuple))
    dirs = set()
    for k in spec:
        parts = k.rstrip("/").split("/")
        upto = len(parts) if k.endswith("/") else len(parts) - 1
        for j in range(1, upto + 1):
            dirs.add("/".join(parts[:j]))
    ops = []
    taken = set(files) | dirs | {k for k in spec if not k.endswith("/")}

    def target(rel, k):
        while rename_target(rel, k) in taken:
            k += 1
        return rename_target(rel, k)

    for i, f in enumerate(files):
        ops.append(("rename", f, target(f, i)))
        ops.append(("edit", f, ["append", "keep", "last", "empty"][i % 4]))
    for i, d in enumerate(sorted(dirs)):
        ops.append(("rename", d, target(d, i + 1)))
    return ops


def relation_check(ck, op, before, after, fmts, how):
    """the relations of the statement between the tool's outputs before and after one change"""
    b, a = flat(before), flat(after)
    target = op[1]
    anc = set(ancestors(target))

    def moved(d):
        if op[0] == "rename":
            if d == op[1]:
                return op[2]
            if d.startswith(op[1] + os.sep):
                return op[2] + d[len(op[1]) :]
        return d

    for (d, f), (c0, s0) in sorted(b.items()):
        if f not in fmts:
            continue
        got = a.get((moved(d), f))
        if got is None:
            continue  # reported by the comparison with the definition
        c1, s1 = got
        inp = {"op": list(op), "format": f, "dir": d}
        if d in anc:
            if op[0] == "rename":
                if c1 != c0:
                    ck.bad(f"{how}: renaming {op[1]!r} -> {op[2]!r} in place changed the {f} content hash of {d!r}: {c0} -> {c1}", "relation/rename-changes-content-hash", inp)
                if s1 == s0:
                    ck.bad(f"{how}: renaming {op[1]!r} -> {op[2]!r} left the {f} structure hash of {d!r} at {s0}", "relation/rename-keeps-structure-hash", inp)
            else:
                if c1 == c0:
                    ck.bad(f"{how}: editing {op[1]!r} ({op[2]}) left the {f} content hash of {d!r} at {c0}", "relation/edit-keeps-content-hash", inp)
                if s1 == s0:
                    ck.bad(f"{how}: editing {op[1]!r} ({op[2]}) left the {f} structure hash of {d!r} at {s0}", "relation/edit-keeps-structure-hash", inp)
        elif (c1, s1) != (c0, s0):
            ck.bad(f"{how}: {op[0]} of {op[1]!r} changed the {f} hashes of the unrelated directory {d!r}: {(c0, s0)} -> {(c1, s1)}", "relation/unrelated-directory-changed", inp)


_N = [0]


def fresh_dir(run, tag):
    _N[0] += 1
    return os.path.join(run.tmp, f"w{_N[0]}_{tag}")


def build_world(run, trees, tree, nested, fmts, tag):
    """tree + nested histories (each nested create is itself checked by the caller through `nested_news`)"""
    tmp = fresh_dir(run, tag)
    root = os.path.join(tmp, "t")
    W.build(root, trees[tree] if isinstance(tree, str) else tree)
    nested_news = []
    for nr in nested:
        nroot = os.path.join(root, nr)
        before = S.manifests_by_history(nroot)
        code, out, exc = W.run("create", [nroot] + S.hargs(fmts))
        nested_news.append((nr, nroot, code, exc, S.new_manifests(nroot, before)))
    return tmp, root, nested_news


def main():
    run = Run(
        "C07",
        rule="case = (tree, nested-history placement, format set, root spelling, enumeration order of os.listdir, option variant) for "
        "create + verify -dh -co; (tree, one in-place rename or content edit, format, observation route) for the relations; "
        "(history script, step) for later generations; (tree, ignore pattern list, placement) for ignoring. non-trivial = distinct "
        "such tuple whose tree has at least one directory or file; every directory of the world is compared in every requested format",
        bound="17 trees (<= 60 entries quick / 120 thorough, depth <= 4, directories with 0..13 (quick) / 0..41 (thorough) children, duplicate digests, digests with a leading zero byte in each format, "
        "empty files/dirs, files at 2^20-1/2^20/2^20+1 bytes, file symlinks, names with spaces / NFC+NFD / XML-special / U+2028 / "
        "prefix siblings / case pairs), <= 3 nested histories up to 3 levels, 10 format sets incl. all six (quick) or all 1-2 subsets + "
        "all six (thorough), 5 root spellings, 3 enumeration orders, every rename/edit of the relation trees (sampled in quick), "
        "histories of <= 13 generations with -n / -sf / failed / -dr / changing format sets, 17 ignore pattern lists on the first generation (-i and -ii) plus negation / -ii / trailing-slash patterns added in later generations and -i on verify",
    )
    thorough = run.tier == "thorough"
    trees = dict(S.TREES)
    nesteds = dict(S.NESTED)
    xt, xn = extra_trees(run.tier)
    trees.update(xt)
    nesteds.update(xn)
    fsets = S.format_sets("thorough") if thorough else QUICK_SETS
    DEF = list(W.DEFAULT_IGNORE)

    # ---------------------------------------------------------------- (1) create + verify on every world
    widx = 0
    for tree in trees:
        for ni, nested in enumerate(nesteds[tree]):
            widx += 1
            if thorough:
                mine = list(fsets)
                if tree == "sizes":
                    mine = [["md5"], ["c4", "xxh64"], list(FMTS)]
            else:
                mine = [fsets[(widx + run.seed) % len(fsets)], fsets[(widx * 3 + 1 + run.seed) % len(fsets)]]
                if mine[0] == mine[1]:
                    mine[1] = fsets[(widx * 3 + 2 + run.seed) % len(fsets)]
                if tree in ("deep", "dups") and list(FMTS) not in mine:
                    mine.append(list(FMTS))
            for fi, fmts in enumerate(mine):
                alt = [("slash", "rev", "plain"), ("rel", "shuf", "plain"), ("dot", "shuf2", "plain"), ("dotslash", "fs", "dupopt")]
                if thorough:
                    variants = [("abs", "fs", "plain")] + (alt if fi == 0 else [("abs", "shuf", "plain")] if fi % 5 == 1 else [])
                elif fi == 0:
                    variants = [("abs", "fs", "plain"), alt[(widx + run.seed) % 4]]
                else:
                    variants = [alt[(widx + 1 + fi + run.seed) % 4]]
                for spell, order, opt in variants:
                    cid = f"world/{tree}/{ni}/{'+'.join(fmts)}/{spell}/{order}/{opt}"
                    if not run.want(cid):
                        continue
                    tmp, root, nested_news = build_world(run, trees, tree, nested, fmts, "w")
                    ck = Checker(run, cid)
                    inp = {"tree": tree, "nested": nested, "formats": fmts, "spell": spell, "order": order}
                    nontrivial = (tree, ni, tuple(fmts), spell, order, opt) if trees[tree] else ("emptytree", tuple(fmts), spell, order, opt)
                    for nr, nroot, code, exc, nnew in nested_news:
                        if code != 0 or exc is not None:
                            ck.bad(f"create of nested root {nr!r} exits {code} ({exc!r})", "create/exit", inp)
                            continue
                        check_create(ck, nroot, nnew, DEF, fmts, inp=dict(inp, nested_root=nr), wclass="create")
                    before = S.manifests_by_history(root)
                    arg, cwd = spell_root(tmp, root, spell)
                    hopts = S.hargs(fmts)
                    if opt == "dupopt":
                        hopts = hopts + S.hargs(fmts[:1]) + ["-i", "nothing_matches_this", "-i", "nothing_matches_this"]
                    with listdir_order(order, run.seed):
                        code, out, exc = W.run("create", [arg] + hopts, cwd=cwd)
                    run.case(cid, nontrivial, sample={"case": cid, "exit": code})
                    if code != 0 or exc is not None:
                        ck.bad(f"create exits {code} ({exc!r}) on a fresh tree: {out[-300:]}", "create/exit", inp)
                        continue
                    pats = DEF + (["nothing_matches_this"] if opt == "dupopt" else [])
                    check_create(ck, root, S.new_manifests(root, before), pats, fmts, inp=inp)
                    # what verify -dh -co prints: formats of the history, then single formats
                    if thorough or spell == "abs" or opt == "dupopt":
                        with listdir_order(order, run.seed):
                            code, out, exc = W.run("verify", [arg, "-dh", "-co"], cwd=cwd)
                        check_verify(ck, root, pats, fmts, out, code, exc, inp=inp)
                    if thorough:
                        singles = list(FMTS) if fi % 4 == 0 else [FMTS[(widx + fi) % 6]]
                    elif fi == 0 and spell == "abs":
                        singles = [FMTS[(widx + run.seed) % 6], FMTS[(widx + 3 + run.seed) % 6]]
                    else:
                        singles = [FMTS[(widx + fi + 1 + run.seed) % 6]] if opt != "dupopt" else []
                    for k, f in enumerate(singles):
                        with listdir_order(order, run.seed):
                            code, out, exc = W.run("verify", [arg, "-dh", "-co", "-h", f] + (["-ro"] if k == 1 else []), cwd=cwd)
                        check_verify(ck, root, pats, [f], out, code, exc, root_only=(k == 1), inp=dict(inp, verify_format=f))

    # ---------------------------------------------------------------- (2) trees without any history: verify -dh -co only
    for tree in trees:
        for fk, f in enumerate(FMTS if thorough else [FMTS[(len(tree) + run.seed) % 6], "c4"]):
            for order in ("fs", "shuf") if thorough else (("fs", "shuf")[fk],):
                cid = f"bare/{tree}/{f}/{order}"
                if not run.want(cid):
                    continue
                tmp, root, _ = build_world(run, trees, tree, [], [f], "b")
                ck = Checker(run, cid)
                with listdir_order(order, run.seed):
                    code, out, exc = W.run("verify", [root, "-dh", "-co", "-h", f])
                run.case(cid, ("bare", tree, f, order), sample={"case": cid, "exit": code})
                check_verify(ck, root, DEF, [f], out, code, exc, inp={"tree": tree, "format": f})

    # ---------------------------------------------------------------- (3) relations: every rename / edit
    rel_worlds = [("deep", []), ("deep", ["A"]), ("levels", ["L1/L2/L3", "L1/L2", "L1"]), ("levels", []), ("names", []), ("prefix", ["Clips"]), ("dups", []), ("wide", []), ("sizes", []), ("case", []), ("order", [])]
    for tree, nested in rel_worlds:
        ops = tree_ops(trees[tree], nested)
        if tree == "sizes":
            ops = [("edit", "big/above.bin", "last"), ("edit", "big/at.bin", "last"), ("edit", "big/below.bin", "keep"), ("rename", "big/at.bin", "big/zz.bin"), ("rename", "big", "small")]
        if not thorough:
            rr = random.Random(f"{run.seed}/{tree}/{len(nested)}")
            ren_d = [o for o in ops if o[0] == "rename" and o[1] not in trees[tree]]
            ren_f = [o for o in ops if o[0] == "rename" and o[1] in trees[tree]]
            eds = [o for o in ops if o[0] == "edit"]
            if tree != "sizes":
                ops = rr.sample(ren_d, min(2, len(ren_d))) + rr.sample(ren_f, min(2, len(ren_f))) + rr.sample(eds, min(3, len(eds)))
            if tree == "wide":
                ops = ops[::2]
        for oi, op in enumerate(ops):
            routes = ["verify", "history", "create"] if thorough else [["verify", "history", "create"][(oi + len(tree)) % 3]]
            for route in routes:
                fl = [FMTS[(oi + len(tree) + run.seed) % 6]] if not thorough else [FMTS[oi % 6], FMTS[(oi + 3) % 6]]
                if not thorough and oi % 4 == 0:
                    fl = fl + ["c4"] if "c4" not in fl else fl
                cid = f"rel/{tree}/{'+'.join(nested) or '-'}/{op[0]}:{op[1]}:{op[2]}/{route}/{'+'.join(fl)}"
                if not run.want(cid):
                    continue
                ck = Checker(run, cid)
                inp = {"tree": tree, "nested": nested, "op": list(op), "route": route, "formats": fl}
                how = {"verify": "verify -dh -co on a tree without history", "history": "create, change, verify -dh -co", "create": "create on two fresh copies"}[route]
                run.case(cid, ("rel", tree, tuple(nested), op, route, tuple(fl)), sample={"case": cid})
                if route == "create":
                    obs = []
                    for side in (0, 1):
                        tmp = fresh_dir(run, f"r{side}")
                        root = os.path.join(tmp, "t")
                        W.build(root, trees[tree])
                        if side == 1:
                            apply_op(root, op)
                        for nr in nested:
                            nr2 = nr
                            if side == 1 and op[0] == "rename" and (nr == op[1] or nr.startswith(op[1] + "/")):
                                nr2 = op[2] + nr[len(op[1]) :]
                            W.run("create", [os.path.join(root, nr2)] + S.hargs(fl))
                        before = S.manifests_by_history(root)
                        code, out, exc = W.run("create", [root] + S.hargs(fl))
                        if code != 0 or exc is not None:
                            ck.bad(f"create exits {code} ({exc!r}) on a fresh tree: {out[-300:]}", "create/exit", inp)
                            break
                        new = S.new_manifests(root, before)
                        check_create(ck, root, new, DEF, fl, inp=inp)
                        obs.append(observed_from_manifests(root, new)[0])
                    if len(obs) == 2:
                        relation_check(ck, op, obs[0], obs[1], fl, how)
                    continue
                tmp, root, _ = build_world(run, trees, tree, nested if route == "history" else [], fl, "r")
                if route == "history":
                    code, out, exc = W.run("create", [root] + S.hargs(fl))
                    if code != 0:
                        ck.bad(f"create exits {code} ({exc!r}) on a fresh tree: {out[-300:]}", "create/exit", inp)
                        continue
                merged = [{}, {}]
                for side in (0, 1):
                    if side == 1:
                        apply_op(root, op)
                    for f in fl:
                        code, out, exc = W.run("verify", [root, "-dh", "-co", "-h", f])
                        o = check_verify(ck, root, DEF, [f], out, code, exc, inp=dict(inp, side=side))
                        for d, l in o.items():
                            merged[side].setdefault(d, []).extend(l)
                relation_check(ck, op, merged[0], merged[1], fl, how)

    # ---------------------------------------------------------------- (4) later generations
    nfd_dir = S.NFD
    scripts = {
        "formats-drift": ("deep", ["A"], [
            ("create", ["md5"], []), ("verify", []), ("create", ["c4", "xxh64"], []), ("write", "B/new.bin", "new"),
            ("create", ["sha1"], []), ("verify", []), ("verify", ["-h", "xxh3"]), ("create", list(FMTS), []), ("verify", []),
        ]),
        "failed": ("deep", [], [
            ("create", ["md5", "c4"], []), ("edit", "A/deep/x.bin", "keep"), ("create!", ["md5"], []), ("verify", []), ("verify", ["-h", "c4"]),
            ("create!", ["xxh64"], []), ("edit", "c.txt", "append"), ("create!", ["md5", "c4"], []), ("verify", []),
        ]),
        "failed-nested": ("levels", ["L1/L2/L3", "L1/L2", "L1"], [
            ("create", ["c4"], []), ("edit", "L1/L2/L3/clip.bin", "keep"), ("create!", ["c4"], []), ("verify", []),
            ("rename", "L1/L2/two.bin", "L1/L2/2.bin"), ("create!", ["c4", "md5"], ["-dr"]), ("verify", ["-h", "md5"]),
        ]),
        "n-and-sf": ("deep", ["A"], [
            ("create-n", ["md5"], ["-n"]), ("verify", []), ("verify", ["-h", "md5"]), ("sf", ["md5"], ["A/a.txt", "c.txt"]), ("verify", []),
            ("create", ["md5"], []), ("sf", ["xxh64"], ["B"]), ("create-n", ["c4"], ["-n"]), ("create", ["xxh64"], []), ("verify", []),
        ]),
        "eleven": ("flat", [], sum([[("write", f"g{k:02d}/n{k}.bin", f"gen{k}"), ("create", [FMTS[k % 6]] + ([FMTS[(k + 2) % 6]] if k % 3 == 0 else []), [])] for k in range(13 if thorough else 12)], []) + [("verify", []), ("verify", ["-h", "sha1"])]),
        "rename-dr": ("prefix", ["Clips"], [
            ("create", ["xxh64", "c4"], []), ("rename", "Clips_proxy/y.mov", "Clips_proxy/y2.mov"), ("create!", ["xxh64", "c4"], ["-dr"]),
            ("rename", "Clips_proxy", "Clips_px"), ("create!", ["c4"], ["-dr"]), ("rename", "Clips", "Clips_"), ("create!", ["c4", "md5"], ["-dr"]), ("verify", []),
        ]),
        "delete": ("deep", [], [
            ("create", ["md5"], []), ("delete", "B/b.txt"), ("create!", ["md5"], []), ("verify", []), ("delete", "A/deep"), ("mkdir", "A/deep"),
            ("create!", ["md5", "sha1"], []), ("delete", "E"), ("write", "E", "now a file"), ("create!", ["md5"], []), ("verify", ["-h", "md5"]),
        ]),
        "nested-added-later": ("deep", [], [
            ("create", ["md5"], []), ("create-at", "A/deep", ["c4"]), ("create", ["md5", "c4"], []), ("verify", []), ("create-at", "A", ["xxh64"]),
            ("create", ["sha1"], []), ("verify", []), ("verify", ["-h", "xxh128"]),
        ]),
        "names": ("names", [nfd_dir], [
            ("create", ["md5", "xxh3"], []), ("rename", nfd_dir + "/e\u0301.txt", nfd_dir + "/\u00e9.txt"), ("create!", ["md5"], ["-dr"]), ("verify", []),
            ("rename", "line\u2028sep.txt", "line\u2028\u2028sep.txt"), ("rename", "sp ace", "sp  ace"), ("rename", "\u00dcbung", "U\u0308bung"),
            ("create!", ["md5"], ["-dr"]), ("verify", []), ("verify", ["-h", "c4"]),
        ]),
        "ignore-later": ("deep", ["A"], [
            ("create", ["md5"], []), ("create!", ["md5"], ["-i", "*.txt"]), ("verify", []), ("create!", ["md5", "c4"], ["-i", "!a.txt"]), ("verify", []),
            ("create-ii", ["md5"], ["A/deep/", "/z"]), ("verify", []), ("verify", ["-i", "B"]), ("verify", ["-h", "xxh64"]), ("create!", ["xxh64"], ["-i", "E/", "-i", "E/"]), ("verify", []),
        ]),
    }
    for name, (tree, nested, steps) in scripts.items():
        checked = [k for k, st in enumerate(steps) if st[0] not in ("write", "edit", "rename", "delete", "mkdir", "create-at")]
        wanted = [k for k in checked if run.want(f"hist/{name}/{k}")]
        if not wanted:
            continue
        fm0 = steps[0][1]
        tmp, root, _ = build_world(run, trees, tree, nested, fm0, "h")
        pats = list(DEF)
        for k, st in enumerate(steps[: max(wanted) + 1]):
            cid = f"hist/{name}/{k}"
            kind = st[0]
            if kind in ("write", "edit", "rename", "delete", "mkdir"):
                apply_op(root, st)
                continue
            if kind == "create-at":
                W.run("create", [os.path.join(root, st[1])] + S.hargs(st[2]))
                continue
            ck = Checker(run, cid)
            inp = {"script": name, "step": k, "op": [kind] + [list(x) if isinstance(x, list) else x for x in st[1:]], "patterns": list(pats)}
            if kind == "verify":
                # -i on verify is not persisted
                extra = [st[1][i + 1] for i in range(len(st[1]) - 1) if st[1][i] == "-i"]
                hf = [st[1][i + 1] for i in range(len(st[1]) - 1) if st[1][i] == "-h"]
                code, out, exc = W.run("verify", [root, "-dh", "-co"] + st[1])
                if k in wanted:
                    run.case(cid, ("hist", name, k), sample={"case": cid, "exit": code})
                    check_verify(ck, root, pats + [p for p in extra if p not in pats], hf or None, out, code, exc, inp=inp)
                continue
            fmts, extra = st[1], list(st[2])
            before = S.manifests_by_history(root)
            if kind == "sf":
                args = [root] + S.hargs(fmts)
                for s in extra:
                    args += ["-sf", os.path.join(root, s)]
                code, out, exc = W.run("create", args)
                if k in wanted:
                    run.case(cid, ("hist", name, k), sample={"case": cid, "exit": code})
                    # nothing recorded about directories; whatever is recorded must still be right
                    obs, _ = observed_from_manifests(root, S.new_manifests(root, before))
                    obs = {d: l for d, l in obs.items() if any(es for _, es in l)}
                    if obs:
                        compare(ck, root, pats, fmts, obs, "create-sf", only_dirs=set(obs), inp=inp)
                continue
            if kind == "create-ii":
                # pattern file, given relative to a cwd that is neither the root nor its parent
                cw = os.path.join(tmp, "elsewhere")
                os.makedirs(cw, exist_ok=True)
                with open(os.path.join(cw, "ign.txt"), "w") as fh:
                    fh.write("\n".join(extra) + "\n")
                newp = extra
                code, out, exc = W.run("create", [os.path.join("..", "t")] + S.hargs(fmts) + ["-ii", "ign.txt"], cwd=cw)
            else:
                newp = [extra[i + 1] for i in range(len(extra) - 1) if extra[i] == "-i"]
                code, out, exc = W.run("create", [root] + S.hargs(fmts) + extra)
            for p in newp:
                if p not in pats:
                    pats.append(p)
            inp["patterns"] = list(pats)
            if k not in wanted:
                continue
            run.case(cid, ("hist", name, k), sample={"case": cid, "exit": code})
            if exc is not None or (kind == "create" and code != 0):
                ck.bad(f"step {k} {st}: create exits {code} ({exc!r}): {out[-300:]}", "create/exit", inp)
                if exc is not None:
                    continue
            if kind == "create-n":
                continue
            check_create(ck, root, S.new_manifests(root, before), pats, fmts, inp=inp, wclass="create-later")

    # ---------------------------------------------------------------- (5) ignore patterns on the first generation
    ign_cases = [
        ("deep", [], ["*.txt"]),
        ("deep", ["A"], ["A/deep"]),
        ("deep", ["A"], ["A/deep/"]),
        ("deep", [], ["E/", "z/"]),
        ("deep", ["A"], ["/c.txt", "/a.txt"]),
        ("deep", ["A", "A/deep"], ["deep/"]),
        ("deep", [], ["*.txt", "!a.txt"]),
        ("deep", ["A"], ["A/*"]),
        ("deep", [], ["**/x.bin", "*.bin"]),
        ("deep", ["A"], ["A"]),
        ("prefix", ["Clips"], ["Clips"]),
        ("prefix", [], ["Clips*", "!Clips.txt"]),
        ("prefix", ["Clips/sub", "Clips"], ["sub", "Clips_proxy/"]),
        ("lookalike", [], ["*ascmhl*", "sub"]),
        ("names", [], ["sp ace/", "* *", "é.txt"]),
        ("levels", ["L1/L2"], ["L1/L2/L3/", "one.bin"]),
        ("wide", [], ["f0*", "sub/d0*"]),
    ]
    for ii, (tree, nested, plist) in enumerate(ign_cases):
        for via in ("i", "ii") if thorough or ii % 2 == 0 else ("i",):
            fmts = [FMTS[(ii + run.seed) % 6], FMTS[(ii + 2 + run.seed) % 6]] if not thorough else list(FMTS)
            cid = f"ignore/{tree}/{'+'.join(nested) or '-'}/{'|'.join(plist)}/{via}"
            if not run.want(cid):
                continue
            tmp, root, _ = build_world(run, trees, tree, nested, fmts, "i")
            ck = Checker(run, cid)
            pats = DEF + [p for p in plist]
            inp = {"tree": tree, "nested": nested, "patterns": plist, "via": via, "formats": fmts}
            before = S.manifests_by_history(root)
            if via == "i":
                args = [root] + S.hargs(fmts) + sum([["-i", p] for p in plist], [])
                code, out, exc = W.run("create", args)
            else:
                with open(os.path.join(tmp, "patterns.txt"), "w", encoding="utf-8") as fh:
                    fh.write("\n".join(plist[1:]) + "\n")
                code, out, exc = W.run("create", ["t"] + S.hargs(fmts) + ["-i", plist[0], "-ii", "patterns.txt"], cwd=tmp)
            run.case(cid, ("ignore", tree, tuple(nested), tuple(plist), via), sample={"case": cid, "exit": code})
            if code != 0 or exc is not None:
                ck.bad(f"create -i {plist} exits {code} ({exc!r}): {out[-300:]}", "create/exit", inp)
                continue
            check_create(ck, root, S.new_manifests(root, before), pats, fmts, inp=inp, wclass="create-ignore")
            code, out, exc = W.run("verify", [root, "-dh", "-co"])
            check_verify(ck, root, pats, fmts, out, code, exc, inp=inp, wclass="verify-ignore")
            f = fmts[0]
            code, out, exc = W.run("verify", [root, "-dh", "-co", "-h", f, "-i", "*.bin", "-i", "B/"])
            check_verify(ck, root, pats + ["*.bin", "B/"], [f], out, code, exc, inp=dict(inp, verify_extra=["*.bin", "B/"]), wclass="verify-ignore")
    run.finish()


if __name__ == "__main__":
    main()
