"""C06 bounded part: histories are append-only and generations are numbered without gaps.

Every case is a *sequence* of real `create` / `create -sf` runs interleaved with tree edits on a small world.  Around
every single run the driver takes a byte-exact picture of every `ascmhl` folder of the world and compares the two
pictures with the property statement (never with the implementation):

  * every manifest (`*.mhl`) that existed before is still there with the same bytes,
  * a history is *touched* iff it has a new manifest or a different chain file; a touched history has exactly one new
    manifest, named  <max existing number + 1, at least 4 digits>_<name of the history folder>_<UTC time of the run>Z.mhl,
  * the chain file lists the earlier entries unchanged and in order, followed by exactly one entry whose sequence
    number, path and c4 are those of the new file (c4 recomputed from the bytes on disk with an independent encoder),
  * reloading the world (MHLHistory.load_from_path) yields generations 1..n ascending in every history, n being the
    number of manifests on disk.

Interrupted runs (killed with os._exit at the k-th file-system event in a forked child) must leave the old manifests
and the old chain entries alone, and the next runs must satisfy the statement relative to the state the crash left.
"""
import builtins
import calendar
import os
import random
import re
import shutil
import sys
import time
import unicodedata

from . import scen as S
from . import world as W
from .common import Run

OK_EXITS = (0, 10, 11)
STAMP = re.compile(r"^(\d{4})-(\d{2})-(\d{2})_(\d{2})(\d{2})(\d{2})Z\.mhl$")
NUM = re.compile(r"^(\d+)_")
M = 1 << 20
NFC = unicodedata.normalize("NFC", S.NFD)
assert NFC != S.NFD

# trees of this driver (in addition to the shared pool): history folders with awkward names at every level
MY_TREES = {
    "odd": {
        "a&b<c>'d/x.bin": "1",
        "a&b<c>'d/in ner/y.bin": "2",
        "line\u2028sep/z.bin": "3",
        'q"uote/w.bin': "4",
        NFC + "/n.bin": "5",
        S.NFD + "/n.bin": "6",
        "top.bin": "0",
    },
    "sized": {"big/below.bin": b"\x01" * (M - 1), "big/at.bin": b"\x02" * M, "big/above.bin": b"\x03" * (M + 1), "zero.bin": b"", "e/": ""},
    "links": {"real/a.bin": "a", "real/b.bin": "b", "ln_file": ("link", "real/a.bin"), "sub/ln_up": ("link", "../real/b.bin"), "sub/c.bin": "c"},
}
MY_NESTED = {
    "odd": [["a&b<c>'d/in ner", "a&b<c>'d", "line\u2028sep", 'q"uote', NFC, S.NFD], [S.NFD]],
    "sized": [["big"]],
    "links": [[], ["real"]],
}
ROOT_NAMES = [
    "sp ace",
    "a&b<c>'d",
    'q"uote',
    "line\u2028sep",
    NFC,
    S.NFD,
    "\u00dcbung",
    "0007_x_2020-01-01_000000Z",
    "x.mhl",
    "tr_ail_",
    "_lead",
    " lead",
    "trail ",
    "-dash",
    "ascmhl_x",
    "a%Yb%%c",
    "t.",
    "[x]*?",
    # (names with control characters - TAB, CR, LF, NEL - are outside the quantifier: the format's text fields exclude them)
    "Clips.txt",
]
ZONES = [
    "UTC0",
    "EST5EDT,M3.2.0,M11.1.0",
    "CET-1CEST,M3.5.0,M10.5.0/3",
    "NZST-12NZDT,M9.5.0,M4.1.0/3",
    "XXX-13:45",
    "YYY+11:30",
    "<+14>-14",
    "AAA12",
]


def tree_of(name):
    return MY_TREES[name] if name in MY_TREES else S.TREES[name]


def nested_of(name):
    return MY_NESTED[name] if name in MY_NESTED else S.NESTED[name]


def set_tz(zone):
    if zone is None:
        os.environ.pop("TZ", None)
    else:
        os.environ["TZ"] = zone
    time.tzset()


# ------------------------------------------------------------------------------------------------ pictures
def history_dirs(root):
    """relative paths ('' = the world root) of all directories at or below root that hold an ascmhl folder"""
    out = [""]
    for dp, dns, _ in os.walk(root):
        dns.sort()
        if "ascmhl" in dns:
            dns.remove("ascmhl")
            if dp != root:
                out.append(os.path.relpath(dp, root))
    return out


def picture(root):
    """{history: {'files': {name: bytes}, 'chain': [(seq, path, c4)] | None, 'chain_bytes': bytes | None, 'err': str}}"""
    pic = {}
    for h in history_dirs(root):
        d = os.path.join(root, h, "ascmhl") if h else os.path.join(root, "ascmhl")
        st = {"files": {}, "chain": [], "chain_bytes": None, "err": None, "dir": os.path.isdir(d)}
        if st["dir"]:
            for n in os.listdir(d):
                p = os.path.join(d, n)
                if os.path.isfile(p) and not os.path.islink(p):
                    with open(p, "rb") as f:
                        st["files"][n] = f.read()
                else:
                    st["files"][n] = None
            cb = st["files"].get("ascmhl_chain.xml")
            st["chain_bytes"] = cb
            if cb is not None:
                try:
                    st["chain"] = W.read_chain(os.path.join(d, "ascmhl_chain.xml"))
                except Exception as e:  # unreadable chain
                    st["chain"] = None
                    st["err"] = repr(e)[:200]
        pic[h] = st
    return pic


EMPTY = {"files": {}, "chain": [], "chain_bytes": None, "err": None, "dir": False}


def mhl_names(st):
    return sorted(n for n in st["files"] if n.endswith(".mhl"))


def number_of(name):
    m = NUM.match(name)
    return int(m.group(1)) if m else None


def short(b, n=60):
    return repr(b[:n]) + ("..." if b is not None and len(b) > n else "")


# ------------------------------------------------------------------------------------------------ the oracle
def check_step(run, cid, label, root, before, after, t0, t1, full, log):
    """compares the pictures around one run with the statement. full=False (interrupted run / exit outside 0,10,11):
    only the append-only part. returns the list of touched histories"""
    touched = []
    inp = {"step": label, "steps_so_far": log[-12:]}

    def bad(what, wclass):
        run.violation(cid, f"[{label}] {what}", wclass, inp=inp)

    for h in sorted(set(before) | set(after)):
        b, a = before.get(h, EMPTY), after.get(h, EMPTY)
        hn = h or "."
        old = mhl_names(b)
        for n in old:
            if n not in a["files"]:
                bad(f"history {hn!r}: existing manifest {n!r} was removed by the run", "manifest-removed")
            elif a["files"][n] != b["files"][n]:
                x, y = b["files"][n], a["files"][n]
                bad(f"history {hn!r}: bytes of existing manifest {n!r} changed ({len(x or b'')} -> {len(y or b'')} bytes, c4 {W.c4_of_bytes(x or b'')[:12]} -> {W.c4_of_bytes(y or b'')[:12]})", "manifest-changed")
        new = [n for n in mhl_names(a) if n not in b["files"]]
        if not new and a["chain_bytes"] == b["chain_bytes"]:
            continue
        touched.append(h)
        bc = b["chain"]
        ac = a["chain"]
        if ac is None:
            bad(f"history {hn!r}: chain file is unreadable after the run: {a['err']}", "chain-unreadable")
            continue
        if bc is not None and ac[: len(bc)] != bc:
            k = next((i for i in range(len(bc)) if i >= len(ac) or ac[i] != bc[i]), None)
            bad(f"history {hn!r}: earlier chain entry #{k + 1} was {bc[k]}, afterwards {ac[k] if k < len(ac) else 'missing'} ({len(bc)} entries before, {len(ac)} after)", "chain-prefix")
            continue
        if not full:
            if len(new) > 1 or (bc is not None and len(ac) > len(bc) + 1):
                bad(f"history {hn!r}: interrupted run left {len(new)} new manifests / {len(ac) - len(bc)} new chain entries", "crash/too-many")
            continue
        if len(new) != 1:
            bad(f"history {hn!r}: the run added {len(new)} manifests {new}, chain went from {len(bc or [])} to {len(ac)} entries; expected exactly one new manifest", "generation-count")
            continue
        name = new[0]
        data = a["files"][name]
        highest = max([number_of(n) or 0 for n in old], default=0)
        want_no = highest + 1
        folder = os.path.basename(os.path.join(root, h) if h else root)
        prefix = f"{want_no:04d}_{folder}_"
        if not name.startswith(prefix):
            got_no = number_of(name)
            if got_no != want_no:
                bad(f"history {hn!r}: new manifest {name!r} is numbered {got_no}, highest existing generation is {highest} so {want_no:04d} was expected", "number")
            else:
                bad(f"history {hn!r}: new manifest is named {name!r}, expected it to start with {prefix!r} (folder name {folder!r})", "name-folder")
        else:
            m = STAMP.match(name[len(prefix) :])
            if not m:
                bad(f"history {hn!r}: new manifest {name!r}: part after {prefix!r} is not <YYYY-MM-DD_hhmmss>Z.mhl", "name-time-form")
            else:
                try:
                    ts = calendar.timegm(tuple(int(x) for x in m.groups()) + (0, 0, 0))
                except Exception:
                    ts = None
                if ts is None or not (int(t0) - 1 <= ts <= int(t1) + 1):
                    bad(
                        f"history {hn!r}: new manifest {name!r} carries time {name[len(prefix):-5]} which is not the UTC time of the run "
                        f"({time.strftime('%Y-%m-%d_%H%M%S', time.gmtime(t0))}..{time.strftime('%Y-%m-%d_%H%M%S', time.gmtime(t1))} UTC, TZ={os.environ.get('TZ')!r})",
                        "name-time-utc",
                    )
        if data is None:
            bad(f"history {hn!r}: new manifest {name!r} is not a regular file", "manifest-kind")
            continue
        # chain: old entries (checked above) + exactly one entry for the new file
        nb = len(bc) if bc is not None else 0
        if len(ac) != nb + 1:
            bad(f"history {hn!r}: chain has {len(ac)} entries after the run, {nb} before; expected exactly one new entry for {name!r}", "chain-entry-count")
            continue
        seq, path, c4 = ac[-1]
        real_c4 = W.c4_of_bytes(data)
        if seq is None or not seq.isdigit() or int(seq) != want_no or number_of(name) != int(seq):
            bad(f"history {hn!r}: new chain entry has sequencenr {seq!r}, the new file is {name!r} (generation {want_no})", "chain-seq")
        if path != name:
            bad(f"history {hn!r}: new chain entry names {path!r}, the new file on disk is {name!r}", "chain-path")
        if c4 != real_c4:
            bad(f"history {hn!r}: new chain entry has c4 {c4}, the bytes of {name!r} hash to {real_c4}", "chain-c4")
    return touched


def check_reload(run, cid, label, root, after, log, strict_chain):
    """Reloading yields generations 1..n ascending (n = manifests on disk), in every history of the world"""
    inp = {"step": label, "steps_so_far": log[-12:]}
    from ascmhl.history import MHLHistory

    for h, st in after.items():
        nums = sorted(number_of(n) or 0 for n in mhl_names(st))
        if nums != list(range(1, len(nums) + 1)):
            run.violation(cid, f"[{label}] history {h or '.'!r}: manifests on disk are numbered {nums}, expected 1..{len(nums)}", "numbering-gap", inp=inp)
        if strict_chain and st["chain"] is not None:
            seqs = [s for s, _, _ in st["chain"]]
            if seqs != [str(i) for i in range(1, len(nums) + 1)]:
                run.violation(cid, f"[{label}] history {h or '.'!r}: chain lists sequence numbers {seqs}, {len(nums)} manifests on disk", "chain-complete", inp=inp)
    if not after.get("", EMPTY)["dir"]:
        return
    try:
        hist = MHLHistory.load_from_path(root)
    except BaseException as e:
        run.violation(cid, f"[{label}] reloading the history at the root failed: {e!r}", "reload-error", inp=inp)
        return
    seen = {}
    todo = [hist]
    while todo:
        x = todo.pop()
        rel = os.path.relpath(x.get_root_path(), root)
        seen["" if rel == "." else rel] = [hl.generation_number for hl in x.hash_lists]
        todo += list(x.child_histories)
    for h, st in after.items():
        if not st["dir"]:
            continue
        n = len(mhl_names(st))
        if h not in seen:
            run.violation(cid, f"[{label}] history {h!r} ({n} manifests on disk) is not part of the reloaded world", "reload-missing", inp=inp)
        elif seen[h] != list(range(1, n + 1)):
            run.violation(cid, f"[{label}] reloading history {h or '.'!r} yields generations {seen[h]}, expected 1..{n} ascending", "reload-order", inp=inp)


# ------------------------------------------------------------------------------------------------ interrupted runs
class _KillWriter:
    def __init__(self, f, ev, half):
        self._f, self._ev, self._half = f, ev, half

    def write(self, data):
        if self._half:
            self._ev("write", lambda: (self._f.write(data[: len(data) // 2]), self._f.flush()))
        else:
            self._ev("write", None)
        r = self._f.write(data)
        self._f.flush()
        return r

    def __enter__(self):
        return self

    def __exit__(self, *a):
        return self._f.__exit__(*a)

    def __iter__(self):
        return iter(self._f)

    def __getattr__(self, k):
        return getattr(self._f, k)


def install_killer(k, half, scope):
    """after this call the process dies (os._exit(77)) right before its k-th mutating file-system event below `scope`
    (half: only writes count and the k-th write is cut in the middle)"""
    cnt = [0]

    def ev(kind, partial):
        if half and kind != "write":
            return
        cnt[0] += 1
        if cnt[0] == k:
            if partial:
                partial()
            os._exit(77)

    wflags = os.O_WRONLY | os.O_RDWR | os.O_CREAT | os.O_TRUNC | os.O_APPEND
    names = {"os.rename", "os.mkdir", "os.remove", "os.rmdir", "os.truncate", "os.link", "os.symlink", "os.chmod", "os.utime", "os.chown"}

    def inside(args):
        return any(isinstance(x, (str, bytes)) and os.fsdecode(x).startswith(scope) for x in args)

    def hook(event, args):
        if event == "open":
            if isinstance(args[2], int) and args[2] & wflags and inside(args[:1]):
                ev("open", None)
        elif event in names and inside(args):
            ev(event, None)

    sys.addaudithook(hook)
    real_open = builtins.open

    def my_open(file, mode="r", *a, **kw):
        f = real_open(file, mode, *a, **kw)
        if isinstance(mode, str) and any(c in mode for c in "wax+") and isinstance(file, (str, bytes)) and os.fsdecode(file).startswith(scope):
            return _KillWriter(f, ev, half)
        return f

    builtins.open = my_open


def forked_create(args, cwd, k, half, scope):
    """runs `create args` in a forked child that dies at event k. returns 77 if it was killed, else the exit code
    (70 = python exception)"""
    sys.stdout.flush()
    sys.stderr.flush()
    pid = os.fork()
    if pid == 0:
        code = 71
        try:
            install_killer(k, half, scope)
            c, out, exc = W.run("create", args, cwd=cwd)
            code = 70 if exc is not None else c
        except BaseException:
            code = 71
        finally:
            os._exit(code)
    _, status = os.waitpid(pid, 0)
    return os.WEXITSTATUS(status) if os.WIFEXITED(status) else 128


# ------------------------------------------------------------------------------------------------ worlds
class World:
    def __init__(self, run, cid, tree, rootname="t", copy_of=None):
        self.run, self.cid = run, cid
        self.tmp = os.path.join(run.tmp, f"w{World.count}")
        World.count += 1
        os.makedirs(self.tmp)
        os.makedirs(os.path.join(self.tmp, "else where"))
        self.root = os.path.join(self.tmp, rootname)
        if copy_of is not None:
            shutil.copytree(copy_of.root, self.root, symlinks=True)  # keeps the mtimes of the files
        else:
            W.build(self.root, tree_of(tree) if isinstance(tree, str) else tree)
        self.log = [x.replace(copy_of.tmp, "$W") for x in copy_of.log] if copy_of is not None else []
        self.exits = []
        self.checked = 0  # runs checked against a non-empty earlier history
        self.same_second = 0
        self.last_sec = None
        self.crashed = False
        self.max_gen = 0
        self.protected = set()  # targets of symbolic links made by edits: never deleted or renamed
        self.last = None  # picture after the last run (tree edits never touch an ascmhl folder)
        self.pending_reload = None
        self.every_reload = run.tier == "thorough"
        for dp, dns, fns in os.walk(self.root):
            for n in dns + fns:
                q = os.path.join(dp, n)
                if os.path.islink(q):
                    self.protected.add(os.path.relpath(os.path.realpath(q), os.path.realpath(self.root)))

    count = 0

    # ---- files of the world (not below an ascmhl folder)
    def files(self, below=""):
        out = []
        base = os.path.join(self.root, below) if below else self.root
        for dp, dns, fns in os.walk(base):
            dns.sort()
            if "ascmhl" in dns:
                dns.remove("ascmhl")
            for n in sorted(fns):
                p = os.path.join(dp, n)
                if os.path.isfile(p) and not os.path.islink(p):
                    out.append(os.path.relpath(p, self.root))
        return out

    def nested(self):
        return history_dirs(self.root)[1:]

    # ---- running create
    def args_for(self, target="", spell="abs", fmts=("md5",), extra=(), sf=(), sf_spell="abs"):
        T = os.path.join(self.root, target) if target else self.root
        cwd = None
        if spell == "abs":
            arg = T
        elif spell == "slash":
            arg = T + os.sep
        elif spell == "rel":
            cwd = os.path.dirname(T)
            arg = os.path.basename(T)
        elif spell == "relslash":
            cwd = os.path.dirname(T)
            arg = os.path.basename(T) + os.sep
        elif spell == "dot":
            cwd, arg = T, "."
        elif spell == "dotslash":
            cwd, arg = T, "./"
        elif spell == "updown":
            arg = os.path.join(T, "..", os.path.basename(T))
        elif spell == "elsewhere":
            cwd = os.path.join(self.tmp, "else where")
            arg = os.path.relpath(T, cwd)
        elif spell == "inside":
            sub = [d for d in sorted(os.listdir(T)) if d != "ascmhl" and os.path.isdir(os.path.join(T, d)) and not os.path.islink(os.path.join(T, d))]
            if sub:
                cwd, arg = os.path.join(T, sub[0]), ".."
            else:
                cwd, arg = T, "."
        else:
            raise ValueError(spell)
        if os.path.basename(T).startswith("-") and not os.path.isabs(arg) and arg.startswith("-"):
            arg = "./" + arg
        if sf and sf_spell == "rel" and cwd is None:
            cwd = os.path.join(self.tmp, "else where")
        args = [arg] + S.hargs(fmts) + list(extra)
        for p in sf:
            ap = os.path.join(self.root, p)
            args += ["-sf", ap if sf_spell == "abs" else os.path.relpath(ap, cwd)]
        return args, cwd

    def create(self, target="", spell="abs", fmts=("md5",), extra=(), sf=(), sf_spell="abs"):
        args, cwd = self.args_for(target, spell, fmts, extra, sf, sf_spell)
        return self.invoke(args, cwd)

    def invoke(self, args, cwd=None):
        label = f"#{len(self.log) + 1} create {' '.join(repr(a) if ' ' in a else a for a in args)}" + (f" (cwd {cwd})" if cwd else "")
        label = label.replace(self.tmp, "$W")
        before = self.last if self.last is not None else picture(self.root)
        t0 = time.time()
        code, out, exc = W.run("create", args, cwd=cwd)
        t1 = time.time()
        after = picture(self.root)
        self.last = after
        self.log.append(label + f" -> {code}")
        self.exits.append(code)
        inscope = code in OK_EXITS and exc is None
        if not inscope and not self.crashed:
            self.run.violation(
                self.cid,
                f"[{label}] exits {code} ({exc!r}) on a world built only by create runs and tree edits: {out[-300:]!r}",
                "exit",
                inp={"steps_so_far": self.log[-12:]},
            )
        touched = check_step(self.run, self.cid, label, self.root, before, after, t0, t1, inscope, self.log)
        if inscope:
            # reloading is checked after every run (thorough) or after every third run and at the end of the case (quick)
            if self.every_reload or self.crashed or len(self.exits) % 3 == 0:
                check_reload(self.run, self.cid, label, self.root, after, self.log, strict_chain=not self.crashed)
                self.pending_reload = None
            else:
                self.pending_reload = (label, after)
            if "-sf" not in args and not touched:
                self.run.violation(self.cid, f"[{label}] exit {code} but no history of the world has a new generation", "no-generation", inp={"steps_so_far": self.log[-12:]})
        if any(mhl_names(before.get(h, EMPTY)) for h in touched):
            self.checked += 1
        sec = int(t0)
        if touched and self.last_sec == sec == int(t1):
            self.same_second += 1
        if touched:
            self.last_sec = int(t1)
        for st in after.values():
            self.max_gen = max(self.max_gen, len(mhl_names(st)))
        return code

    def crash(self, args, cwd, k, half):
        """interrupted run; returns True if the run was killed (False: it completed, k is beyond its last event)"""
        label = f"#{len(self.log) + 1} create {' '.join(args)} killed at {'write' if half else 'event'} {k}".replace(self.tmp, "$W")
        before = self.last if self.last is not None else picture(self.root)
        t0 = time.time()
        st = forked_create(args, cwd, k, half, self.tmp)
        t1 = time.time()
        after = picture(self.root)
        self.last = after
        self.log.append(label + f" -> {st}")
        if st == 77:
            self.crashed = True
            check_step(self.run, self.cid, label, self.root, before, after, t0, t1, False, self.log)
            return True
        # the run completed under instrumentation: it is an ordinary run
        check_step(self.run, self.cid, label, self.root, before, after, t0, t1, st in OK_EXITS, self.log)
        return False

    # ---- tree edits
    def note(self, what):
        self.log.append(what.replace(self.tmp, "$W"))

    def pick(self, i, below=""):
        fs = self.files(below)
        return fs[i % len(fs)] if fs else None

    def modify_keep(self, rel):
        """new content, same size, same mtime"""
        if rel is None:
            return
        p = os.path.join(self.root, rel)
        st = os.stat(p)
        with open(p, "rb") as f:
            data = f.read()
        new = bytes((b + 1) % 256 for b in data) if data else b""
        with open(p, "wb") as f:
            f.write(new)
        os.utime(p, ns=(st.st_atime_ns, st.st_mtime_ns))
        self.note(f"edit: content of {rel!r} replaced, size and mtime kept")

    def modify(self, rel):
        if rel is None:
            return
        with open(os.path.join(self.root, rel), "ab") as f:
            f.write(b"+more")
        self.note(f"edit: appended to {rel!r}")

    def add(self, rel, data=b"new"):
        p = os.path.join(self.root, rel)
        os.makedirs(os.path.dirname(p), exist_ok=True)
        with open(p, "wb") as f:
            f.write(data)
        self.note(f"edit: added {rel!r} ({len(data)} bytes)")

    def delete(self, rel):
        if rel is None or rel in self.protected:
            return
        os.remove(os.path.join(self.root, rel))
        self.note(f"edit: deleted {rel!r}")

    def rename(self, rel):
        if rel is None or rel in self.protected:
            return
        os.rename(os.path.join(self.root, rel), os.path.join(self.root, rel + ".renamed"))
        self.note(f"edit: renamed {rel!r}")

    def touch(self, rel, when):
        if rel is None:
            return
        os.utime(os.path.join(self.root, rel), (when, when))
        self.note(f"edit: mtime of {rel!r} set to {when}")

    def adddir(self, rel):
        os.makedirs(os.path.join(self.root, rel), exist_ok=True)
        self.note(f"edit: added directory {rel!r}")

    def symlink(self, rel, target):
        p = os.path.join(self.root, rel)
        if not os.path.lexists(p):
            os.symlink(os.path.join(self.root, target), p)
            self.protected.add(target)
            self.note(f"edit: symlink {rel!r} -> {target!r}")

    def done(self, kind, key):
        if self.pending_reload is not None:
            label, after = self.pending_reload
            check_reload(self.run, self.cid, label, self.root, after, self.log, strict_chain=not self.crashed)
        nontrivial = self.checked > 0
        self.run.case(
            self.cid,
            key if nontrivial else None,
            sample={"case": self.cid, "runs": len(self.exits), "exits": sorted(set(self.exits)), "checked_on_existing_history": self.checked, "same_second_pairs": self.same_second, "max_generations": self.max_gen},
        )
        COVER["runs"] += len(self.exits)
        COVER["by_script"][kind] = COVER["by_script"].get(kind, 0) + len(self.exits)
        COVER["same_second"] += self.same_second
        COVER["max_gen"] = max(COVER["max_gen"], self.max_gen)
        for e in self.exits:
            COVER["exits"][e] = COVER["exits"].get(e, 0) + 1
        shutil.rmtree(self.tmp, ignore_errors=True)


COVER = {"runs": 0, "same_second": 0, "max_gen": 0, "exits": {}, "by_script": {}}


# ------------------------------------------------------------------------------------------------ scripts
def seal_all(w, nested, fmts):
    for nr in nested:
        w.create(target=nr, fmts=fmts)
    w.create(fmts=fmts)


def script_life(w, nested, fA, fB):
    """the ordinary life of a history: repeated runs, failed (11) and incomplete (10) generations, -n, -sf, other formats,
    runs that address a nested history directly"""
    seal_all(w, nested, fA)
    w.create(fmts=fA)
    w.modify_keep(w.pick(0))
    w.create(fmts=fA)  # 11 when a file exists
    f0 = w.pick(0)
    if f0:
        w.create(fmts=fA, sf=[f0])
    w.delete(w.pick(-1))
    w.create(fmts=fA, spell="slash")  # 10
    w.add("new dir/added.bin")
    w.create(fmts=fA, extra=["-n"])
    w.create(fmts=fB)
    w.rename(w.pick(1))
    w.create(fmts=fB, extra=["-v"])
    ns = w.nested()
    if ns:
        deepest = max(ns, key=lambda x: (x.count(os.sep), x))
        fd = w.pick(0, deepest)
        if fd:
            w.create(fmts=fA, sf=[fd])
        w.create(target=deepest, fmts=fB)
        w.create(fmts=fA, sf=[deepest])
        w.modify(w.pick(0, deepest))
        w.create(target=ns[0], fmts=fA, spell="dot")
    w.create(fmts=fA + fB, spell="rel")
    # a history that is born late, inside a folder the outer history has already recorded
    w.create(target="new dir", fmts=fB)
    w.create(fmts=fA)


def script_long(w, nested, fsets, n):
    """n generations in the root history, format set changes every run, edits in between, some runs address a nested history"""
    seal_all(w, nested, fsets[0])
    for i in range(n):
        f = fsets[i % len(fsets)]
        if i % 3 == 1:
            w.add(f"gen{i}.bin", data=b"g%d" % i)
        if i % 4 == 2:
            w.modify(w.pick(i))
        if i % 5 == 4 and w.nested():
            ns = w.nested()
            w.create(target=ns[i % len(ns)], fmts=f)
        extra = ["-n"] if i % 6 == 3 else []
        if i % 7 == 5 and w.pick(i):
            w.create(fmts=f, sf=[w.pick(i)])
        else:
            w.create(fmts=f, extra=extra)


def script_ignore(w, nested):
    """ignore patterns grow from generation to generation: plain, with slashes, directory patterns, negation added later,
    patterns from a file given relative to another cwd, a pattern that hides a nested history"""
    f = ["md5"]
    seal_all(w, nested, f)
    w.create(fmts=f, extra=["-i", "*.txt"])
    w.create(fmts=f, extra=["-i", "A/deep/"])
    w.create(fmts=f, extra=["-i", "/c.txt", "-i", "/c.txt"])
    w.create(fmts=f, extra=["-i", "!a.txt"])
    pf = os.path.join(w.tmp, "else where", "patterns.txt")
    with open(pf, "w") as fh:
        fh.write("B/\n\n!notes.txt\n**/x.bin\nsp ace/fi le.txt\n")
    w.note("edit: pattern file B/ | !notes.txt | **/x.bin | sp ace/fi le.txt")
    args, _ = w.args_for(fmts=f)
    cwd = os.path.join(w.tmp, "else where")
    w.invoke(args + ["-ii", "patterns.txt"], cwd=cwd)
    w.invoke(args + ["-ii", pf, "-i", "z"], cwd=None)
    for nr in w.nested()[:1]:
        w.create(fmts=f, extra=["-i", nr + "/"])
        w.create(target=nr, fmts=f, extra=["-i", "*.bin"])
    fs = w.pick(0)
    if fs:
        w.create(fmts=f, sf=[fs], extra=["-i", "*"])
    w.create(fmts=f)


def script_spell(w, nested, spells):
    """the root (and a nested root) given in every spelling, folder mode and -sf with relative option paths"""
    f = ["md5"]
    seal_all(w, nested, f)
    for sp in spells:
        w.create(fmts=f, spell=sp)
        fs = w.pick(len(sp))
        if fs:
            w.create(fmts=f, spell=sp, sf=[fs], sf_spell="rel" if len(sp) % 2 else "abs")
    for nr in w.nested()[:2]:
        for sp in spells:
            w.create(target=nr, fmts=f, spell=sp)


def script_dup(w, nested):
    """repeated options"""
    seal_all(w, nested, ["md5"])
    w.create(fmts=["md5", "md5"])
    w.create(fmts=["c4", "md5", "c4"])
    a, b = w.pick(0), w.pick(1)
    if a:
        w.create(fmts=["md5"], sf=[a, a])
        w.create(fmts=["md5", "md5"], sf=[a, b, os.path.dirname(a) or a], sf_spell="rel")
    ds = sorted({os.path.dirname(x) for x in w.files() if os.path.dirname(x)})
    if ds:
        w.create(fmts=["md5"], sf=[ds[0], ds[0]])
    w.adddir("quite/empty")
    w.create(fmts=["md5"], sf=["quite"])  # nothing to record: may touch nothing
    w.create(fmts=["md5"], extra=["-n", "-n", "-v", "-v"])


def script_tz(w, nested, zones):
    """the clock zone of the process changes between the runs; file mtimes around DST switches of those zones"""
    f = ["md5"]
    old = os.environ.get("TZ")
    try:
        set_tz("EST5EDT,M3.2.0,M11.1.0")
        # 2025-11-02 05:30Z = 01:30 EDT, 06:30Z = 01:30 EST (repeated hour), 2026-03-08 06:59:59Z / 07:00:00Z spring switch
        for i, when in enumerate([1762061400, 1762065000, 1772953199, 1772953200]):
            w.touch(w.pick(i), when)
        seal_all(w, nested, f)
        for i, z in enumerate(zones):
            set_tz(z)
            w.note(f"TZ={z}")
            w.create(fmts=f)
            fs = w.pick(i)
            if fs and i % 2 == 0:
                w.create(fmts=f, sf=[fs])
            if i % 3 == 1:
                w.modify(w.pick(i + 1))
    finally:
        set_tz(old)


def script_frozen(w, nested, instants):
    """runs under a stopped clock: several runs at the very same instant, instants at day / year ends"""
    import freezegun

    f = ["md5"]
    with freezegun.freeze_time(instants[0]) as fz:
        seal_all(w, nested, f)
        for ins in instants:
            fz.move_to(ins)
            w.note(f"clock stopped at {ins}")
            w.create(fmts=f)
            w.create(fmts=f)
            fs = w.pick(1)
            if fs:
                w.create(fmts=f, sf=[fs])
            ns = w.nested()
            if ns:
                w.create(target=ns[-1], fmts=f)
            w.modify(w.pick(0))
            w.create(fmts=f)


def script_random(w, nested, rng, length, fsets):
    seal_all(w, nested, fsets[0])
    spells = ["abs", "slash", "rel", "dot", "updown", "elsewhere", "dotslash", "relslash", "inside"]
    for i in range(length):
        op = rng.choice(["create", "create", "create", "sf", "sf", "nested", "modify", "keep", "add", "delete", "rename", "n", "ignore", "adddir", "symlink", "newhist"])
        f = rng.choice(fsets)
        fs = w.files()
        if op == "create":
            w.create(fmts=f, spell=rng.choice(spells))
        elif op == "n":
            w.create(fmts=f, extra=["-n"])
        elif op == "ignore":
            w.create(fmts=f, extra=["-i", rng.choice(["*.txt", "!a.txt", "B/", "/A/deep", "*.renamed", "L1/L2/", "Clips*"])])
        elif op == "sf" and fs:
            k = rng.choice([1, 1, 2, 3])
            w.create(fmts=f, sf=[rng.choice(fs) for _ in range(k)], sf_spell=rng.choice(["abs", "rel"]), spell=rng.choice(["abs", "slash", "dot"]))
        elif op == "newhist":
            ds = sorted({os.path.dirname(x) for x in fs if os.path.dirname(x)} - set(w.nested()))
            if ds:
                w.create(target=rng.choice(ds), fmts=f)
        elif op == "nested" and w.nested():
            w.create(target=rng.choice(w.nested()), fmts=f, spell=rng.choice(spells))
        elif op == "modify" and fs:
            w.modify(rng.choice(fs))
        elif op == "keep" and fs:
            w.modify_keep(rng.choice(fs))
        elif op == "add":
            d = rng.choice([""] + sorted({os.path.dirname(x) for x in fs}))
            w.add(os.path.join(d, f"r{i}.bin"), data=bytes([i % 256]) * rng.choice([0, 1, 7]))
        elif op == "delete" and fs:
            w.delete(rng.choice(fs))
        elif op == "rename" and fs:
            x = rng.choice(fs)
            if not os.path.exists(os.path.join(w.root, x + ".renamed")):
                w.rename(x)
        elif op == "adddir":
            w.adddir(f"dir{i}/sub")
        elif op == "symlink" and fs:
            w.symlink(f"link{i}", rng.choice(fs))
    w.create(fmts=fsets[0])


def write_chain(path, entries):
    """independent writer of a chain file (used to fabricate long histories only)"""
    from xml.sax.saxutils import escape

    with open(path, "w", encoding="utf-8") as f:
        f.write('<?xml version="1.0" encoding="UTF-8"?>\n<ascmhldirectory xmlns="urn:ASC:MHL:DIRECTORY:v2.0">\n')
        for seq, p, c4 in entries:
            f.write(f'  <hashlist sequencenr="{seq}">\n    <path>{escape(p)}</path>\n    <c4>{c4}</c4>\n  </hashlist>\n')
        f.write("</ascmhldirectory>\n")


def script_rollover(w, upto):
    """a history whose generations 2..upto are byte copies of generation 1 (a sequence of `upto` runs on an unchanged tree
    differs from this only in the creation dates), then real runs across the 9999 -> 10000 boundary"""
    w.create(fmts=["md5"])
    d = os.path.join(w.root, "ascmhl")
    first = [n for n in os.listdir(d) if n.endswith(".mhl")][0]
    with open(os.path.join(d, first), "rb") as f:
        data = f.read()
    c4 = W.c4_of_bytes(data)
    entries = [("1", first, c4)]
    for i in range(2, upto + 1):
        n = f"{i:04d}_{os.path.basename(w.root)}_2020-01-01_000000Z.mhl"
        with open(os.path.join(d, n), "wb") as f:
            f.write(data)
        entries.append((str(i), n, c4))
    write_chain(os.path.join(d, "ascmhl_chain.xml"), entries)
    w.note(f"fabricated generations 2..{upto} as copies of generation 1")
    w.last = None
    w.create(fmts=["md5"])
    w.modify(w.pick(0))
    w.create(fmts=["md5"])
    w.create(fmts=["md5"], sf=[w.pick(0)])
    w.create(fmts=["md5"])


# ------------------------------------------------------------------------------------------------ main
def main():
    run = Run(
        "C06",
        rule="case = one scripted or seeded-random sequence of create / create -sf runs and tree edits on one world (tree, nested-history "
        "placement, root folder name); every run of the sequence is checked (bytes of all ascmhl folders before vs after, name and number "
        "of the new manifest, chain entries vs manifest bytes, reload); non-trivial = distinct (script, world, parameters) in which at "
        "least one run was checked on a history that already had generations; crash cases = (world, kill point k, whole/half write)",
        bound="13 trees (<= 7 entries, depth <= 4; awkward names at file, folder, nested-root and root level: spaces, NFC/NFD, XML-special, "
        "U+2028, CR/LF/TAB/NEL, prefix siblings, symlinks, empty dirs/files, 1 MiB +-1), <= 6 nested histories (3 levels), sequences of "
        "<= 22 runs (quick) / <= 40 (thorough), >= 12 generations per history in the long script, format sets changing per run, exits "
        "0/10/11, -n, -sf (files, folders, duplicates, relative), -i/-ii (slashes, directory patterns, negation, hidden nested history), "
        "9 root spellings, 8 POSIX TZ strings, stopped clock (same instant, day/year end), kill at every mutating file-system event "
        "and in the middle of every write of a run on flat / nested / fresh worlds, 9999 -> 10000 rollover (thorough)",
    )
    thorough = run.tier == "thorough"
    fsets = S.format_sets(run.tier)
    worlds = [(t, ni, nested) for t in list(S.TREES) + list(MY_TREES) for ni, nested in enumerate(nested_of(t))]

    def guarded(cid, fn):
        """runs one case; an exception of the driver's own scripts must not pass silently"""
        try:
            fn()
        except Exception as e:  # pragma: no cover
            import traceback

            run.violation(cid, f"driver script aborted: {e!r} {traceback.format_exc()[-600:]}", "driver-error")

    def sel(kind, t, ni, quick):
        """quick: the listed worlds; thorough: every world (the longer scripts: every tree with its deepest nesting)"""
        if thorough:
            return kind in ("long", "ignore", "dup") or ni == len(nested_of(t)) - 1 or (t, ni) in quick
        return (t, ni) in quick

    # ---- life: every tree; quick: its deepest nesting (all nestings of the two multi-level trees)
    for t, ni, nested in worlds:
        if not thorough and not (t in ("deep", "levels") or ni == len(nested_of(t)) - 1):
            continue
        if thorough:
            pairs = [(fsets[i], fsets[(i * 7 + 3) % len(fsets)]) for i in range(0, len(fsets), 5)]
        else:
            k = (len(t) + ni) % 3
            pairs = [[(fsets[0], fsets[2]), (fsets[3], fsets[1]), (fsets[4], fsets[0])][k]]
        for fA, fB in pairs:
            cid = f"life/{t}/{ni}/{'+'.join(fA)}/{'+'.join(fB)}"
            if not run.want(cid):
                continue
            w = World(run, cid, t)
            guarded(cid, lambda: script_life(w, nested, list(fA), list(fB)))
            w.done("life", ("life", t, ni, tuple(fA), tuple(fB)))

    # ---- long histories
    for t, ni, nested in worlds:
        if not sel("long", t, ni, (("flat", 0), ("levels", 1), ("odd", 0))):
            continue
        n = 28 if thorough else 13
        cid = f"long/{t}/{ni}/{n}"
        if not run.want(cid):
            continue
        w = World(run, cid, t)
        guarded(cid, lambda: script_long(w, nested, fsets, n))
        w.done("long", ("long", t, ni, n))

    # ---- ignore patterns
    for t, ni, nested in worlds:
        if not sel("ignore", t, ni, (("deep", 2), ("names", 1))):
            continue
        cid = f"ignore/{t}/{ni}"
        if not run.want(cid):
            continue
        w = World(run, cid, t)
        guarded(cid, lambda: script_ignore(w, nested))
        w.done("ignore", ("ignore", t, ni))

    # ---- spellings of the root
    spells = ["abs", "slash", "rel", "relslash", "dot", "dotslash", "updown", "elsewhere", "inside"]
    for t, ni, nested in worlds:
        if not sel("spell", t, ni, (("deep", 3), ("odd", 1))):
            continue
        cid = f"spell/{t}/{ni}"
        if not run.want(cid):
            continue
        w = World(run, cid, t)
        guarded(cid, lambda: script_spell(w, nested, spells if (thorough or t == "deep") else spells[1::2]))
        w.done("spell", ("spell", t, ni))

    # ---- awkward names of the root folder itself
    for i, rn in enumerate(ROOT_NAMES):
        for t, nested in [("flat", []), ("deep", ["A/deep", "A"])] if thorough else [("flat", []) if i % 5 else ("deep", ["A"])]:
            cid = f"rootname/{i}/{t}"
            if not run.want(cid):
                continue
            w = World(run, cid, t, rootname=rn)

            def sc():
                seal_all(w, nested, ["md5"])
                w.create(fmts=["c4"], spell="slash")
                w.modify(w.pick(0))
                w.create(fmts=["md5"], spell="rel", sf=[w.pick(0)])
                if thorough:
                    w.create(fmts=["md5"], spell="dot")
                    w.create(fmts=["md5"], spell="elsewhere")

            guarded(cid, sc)
            w.done("rootname", ("rootname", rn, t))

    # ---- repeated options
    for t, ni, nested in worlds:
        if not sel("dup", t, ni, (("deep", 1), ("links", 1))):
            continue
        cid = f"dup/{t}/{ni}"
        if not run.want(cid):
            continue
        w = World(run, cid, t)
        guarded(cid, lambda: script_dup(w, nested))
        w.done("dup", ("dup", t, ni))

    # ---- time zones
    for t, ni, nested in worlds:
        if not sel("tz", t, ni, (("deep", 4),)):
            continue
        cid = f"tz/{t}/{ni}"
        if not run.want(cid):
            continue
        w = World(run, cid, t)
        guarded(cid, lambda: script_tz(w, nested, ZONES))
        w.done("tz", ("tz", t, ni))

    # ---- stopped clock
    try:
        import freezegun  # noqa: F401

        have_fg = True
    except Exception:
        have_fg = False
    instants = ["2025-12-31 23:59:59", "2026-01-01 00:00:00", "2026-03-08 06:59:59", "2025-11-02 05:30:00", "2024-02-29 12:00:00", "2038-01-19 03:14:08"]
    for t, ni, nested in worlds:
        if not have_fg or not sel("frozen", t, ni, (("levels", 1),)):
            continue
        cid = f"frozen/{t}/{ni}"
        if not run.want(cid):
            continue
        w = World(run, cid, t)
        guarded(cid, lambda: script_frozen(w, nested, instants if thorough else instants[:2]))
        w.done("frozen", ("frozen", t, ni))

    # ---- seeded random sequences
    nrand = 80 if thorough else 8
    for i in range(nrand):
        rng = random.Random(f"{run.seed}/{i}")
        t, ni, nested = worlds[rng.randrange(len(worlds))]
        cid = f"random/{run.seed}/{i}"
        if not run.want(cid):
            continue
        w = World(run, cid, t)
        length = rng.randrange(10, 40 if thorough else 22)
        guarded(cid, lambda: script_random(w, nested, rng, length, fsets))
        w.done("random", ("random", run.seed, i))

    # ---- interrupted runs: (name, tree, nested, prior runs at the root, kill modes)
    crash_worlds = [("flat", "flat", [], 2, ("op", "half")), ("nested", "deep", ["A"], 1, ("op",))]
    if thorough:
        crash_worlds = [
            ("fresh", "flat", [], 0, ("op", "half")),
            ("flat", "flat", [], 2, ("op", "half")),
            ("nested", "deep", ["A"], 1, ("op", "half")),
            ("levels", "levels", ["L1/L2", "L1"], 1, ("op", "half")),
            ("sf", "deep", ["A"], 1, ("op", "half")),
            ("odd", "odd", MY_NESTED["odd"][0], 1, ("op",)),
            ("prefix", "prefix", ["Clips/sub", "Clips"], 3, ("op",)),
            ("deep11", "deep", ["A/deep", "A"], 11, ("op",)),
        ]
    for name, t, nested, prior, modes in crash_worlds:
        if run.only is not None and not run.only.startswith(f"crash/{name}/"):
            continue
        # the world before the interrupted run is built once (every run of it checked) and copied for every kill point
        tpl = World(run, f"crash/{name}/template", t)

        def build_tpl():
            for nr in nested:
                tpl.create(target=nr)
            for _ in range(prior):
                tpl.create()
            tpl.modify(tpl.pick(0))

        guarded(tpl.cid, build_tpl)
        for mode in modes:
            half = mode == "half"
            for k in range(1, 400):
                cid = f"crash/{name}/{mode}/{k}"
                if not run.want(cid):
                    continue
                w = World(run, cid, t, copy_of=tpl)
                state = {}

                def sc():
                    if name == "sf":
                        args, cwd = w.args_for(sf=[w.pick(0, "A"), w.pick(-1)])
                    else:
                        args, cwd = w.args_for()
                    state["killed"] = w.crash(args, cwd, k, half)
                    # life goes on
                    w.create()
                    fs = w.pick(0)
                    if fs:
                        w.create(sf=[fs], fmts=["c4"])
                    if thorough:
                        for nr in w.nested()[:1]:
                            w.create(target=nr)
                        w.create(fmts=["c4"])

                guarded(cid, sc)
                killed = state.get("killed", False)
                w.done("crash", ("crash", name, half, k) if killed else None)
                if not killed:
                    break
        tpl.done("crash-template", None)

    # ---- four-digit rollover
    if thorough or run.only == "rollover/9998":
        cid = "rollover/9998"
        if run.want(cid):
            w = World(run, cid, "flat")
            guarded(cid, lambda: script_rollover(w, 9998))
            w.done("rollover", ("rollover", 9998))

    cov = {"runs": COVER["runs"], "same_second_pairs": COVER["same_second"], "max_generations": COVER["max_gen"]}
    cov["exits"] = {str(k): v for k, v in sorted(COVER["exits"].items())}
    cov["runs_by_script"] = COVER["by_script"]
    run.samples.append({"coverage": cov})
    run.finish()


if __name__ == "__main__":
    main()
