"""C11 bounded part: every manifest written by `create` / `flatten` validates against xsd/ASCMHL.xsd and every chain /
collection file validates against the directory XSD (xsd/ASCMHLDirectory__combined.xsd, the offline form of
ASCMHLDirectory.xsd), after EVERY command of every small history - also after commands that exit non-zero and after
commands that were killed half way.

Oracle: lxml's XML Schema validator (trusted base) applied to every file below the world directory whose name is
`*.mhl` (manifest) or `ascmhl_chain.xml` / `ascmhl_collection.xml` (directory file) and whose bytes changed since the
previous step.  Nothing else is demanded: exit codes, record contents and left-over `*.tmp` files are not judged here.
"""
import hashlib
import itertools
import os
import random
import shutil
import sys
import time
import xml.etree.ElementTree as ET

from . import scen as S
from . import world as W
from .common import Run

DIRFILES = ("ascmhl_chain.xml", "ascmhl_collection.xml")
NS, NSD = W.NS, W.NSD
M = 1 << 20


# ------------------------------------------------------------------------------------------------ validator
class Schemas:
    """the two published schemas, compiled once (world.xsd_validate compiles them per call)"""

    def __init__(self):
        from lxml import etree

        self.etree = etree
        repo = os.environ.get("VERIF_REPO", "/repo")
        self.files = {
            "manifest": os.path.join(repo, "xsd", "ASCMHL.xsd"),
            "directory": os.path.join(repo, "xsd", "ASCMHLDirectory__combined.xsd"),
        }
        self.schema = {k: etree.XMLSchema(etree.parse(p)) for k, p in self.files.items()}

    def validate(self, path, kind):
        """(ok, stable error label, message)"""
        try:
            doc = self.etree.parse(path)
        except self.etree.XMLSyntaxError as e:
            return False, "not-well-formed", str(e)[:300]
        except OSError as e:
            return False, "unreadable", str(e)[:300]
        sch = self.schema[kind]
        if sch.validate(doc):
            return True, "", ""
        log = list(sch.error_log)
        first = log[0] if log else None
        label = first.type_name if first is not None else "invalid"
        msg = "; ".join(f"line {e.line}: {e.message}" for e in log[:3])
        el = ""
        if first is not None and "Element '" in first.message:
            el = first.message.split("Element '", 1)[1].split("'", 1)[0].split("}")[-1]
            if "attribute '" in first.message:
                el += "@" + first.message.split("attribute '", 1)[1].split("'", 1)[0]
        return False, f"{label}:{el}" if el else label, msg[:600]


def features(path, kind):
    """coverage facts about one (valid) written file, read with xml.etree: which corners of the schema it exercises"""
    out = set()
    try:
        t = ET.parse(path).getroot()
    except ET.ParseError:
        return out
    if kind == "directory":
        n = len(t.findall(NSD + "hashlist"))
        out.add("collection" if os.path.basename(path) == "ascmhl_collection.xml" else "chain")
        if n >= 11:
            out.add("chain>=11")
        if n >= 2:
            out.add("chain>=2")
        return out
    hs, rf = t.find(NS + "hashes"), t.find(NS + "references")
    pi, ci = t.find(NS + "processinfo"), t.find(NS + "creatorinfo")
    out.add("process:" + (pi.findtext(NS + "process") or "?"))
    out.add("hashes" if hs is not None else "no-hashes")
    if rf is not None:
        out.add("references" if hs is not None else "references-only")
        if len(rf) > 1:
            out.add("references>1")
    elif hs is None:
        out.add("no-hashes-no-references")
    out.add("roothash" if pi.find(NS + "roothash") is not None else "no-roothash")
    ig = pi.find(NS + "ignore")
    if ig is not None and len(ig) > 3:
        out.add("ignore>3")
    for tag in ("author", "location", "comment"):
        if ci.find(NS + tag) is not None:
            out.add(tag)
    for a in ci.findall(NS + "author"):
        for k in a.attrib:
            out.add("author@" + k)
    for h in hs if hs is not None else []:
        tag = h.tag.replace(NS, "")
        fm = [c for c in h if c.tag.replace(NS, "") in W.FORMATS]
        if tag == "hash":
            out.add(f"hash-formats:{min(len(fm), 3)}")
            for c in fm:
                out.add("action:" + str(c.get("action")))
            if h.find(NS + "path").get("size") == "0":
                out.add("size0")
            if h.find(NS + "previousPath") is not None:
                out.add("hash-previousPath")
        else:
            c = h.find(NS + "content")
            out.add(f"dirhash-formats:{min(len(c) if c is not None else 0, 3)}")
            if h.find(NS + "previousPath") is not None:
                out.add("dirhash-previousPath")
    return out


# ------------------------------------------------------------------------------------------------ one world
class World:
    counter = itertools.count()

    def __init__(self, run, sch, cid, tree, rootname="t"):
        self.run, self.sch, self.cid = run, sch, cid
        self.dir = os.path.join(run.tmp, f"w{next(World.counter)}")
        self.root = os.path.join(self.dir, rootname)
        W.build(self.root, S.TREES[tree] if isinstance(tree, str) else tree)
        self.seen = {}
        self.feats = set()
        self.files = 0
        self.steps = []
        self.bad = 0

    # ---- paths
    def p(self, rel=""):
        return os.path.join(self.root, rel) if rel else self.root

    def short(self, a):
        return str(a).replace(self.dir, "$W")

    # ---- the check after every step
    def relevant(self):
        for dp, dns, fns in os.walk(self.dir):
            for n in sorted(fns):
                if n.endswith(".mhl"):
                    yield os.path.join(dp, n), "manifest"
                elif n in DIRFILES:
                    yield os.path.join(dp, n), "directory"

    def check(self, label):
        for path, kind in self.relevant():
            try:
                with open(path, "rb") as f:
                    sig = hashlib.sha1(f.read()).digest()
            except OSError:
                continue
            if self.seen.get(path) == sig:
                continue
            self.seen[path] = sig
            self.files += 1
            ok, err, msg = self.sch.validate(path, kind)
            if ok:
                self.feats |= features(path, kind)
                continue
            self.bad += 1
            xsd = os.path.basename(self.sch.files[kind])
            self.run.violation(
                self.cid,
                f"after step {len(self.steps)} ({label}): {self.short(path)} does not validate against {xsd}: {msg}",
                f"{kind}/{err}",
                inp={"steps": self.steps[-12:], "file": self.short(path)},
            )

    # ---- commands
    def cmd(self, name, args, cwd=None):
        args = [str(a) for a in args]
        try:
            code, out, exc = W.run(name, args, cwd=cwd)
        except BaseException as e:  # a command must never take the driver down
            code, out, exc = -1, "", e
        label = f"{name} {' '.join(self.short(a) for a in args)}" + (f" [cwd {self.short(cwd)}]" if cwd else "")
        self.steps.append(f"{label} -> exit {code}" + (f" ({type(exc).__name__})" if exc is not None else ""))
        self.feats.add(f"exit:{code}")
        if os.environ.get("C11_DEBUG") and (os.environ["C11_DEBUG"] == "all" or code not in (0, 10, 11, 30, 31, 32, 33)):
            print(f"[c11] {self.cid}: {self.steps[-1]} {exc!r} {out[-200:]!r}", file=sys.stderr)
        self.check(label)
        return code

    def spelled(self, target, spell):
        """(argument, cwd) for one way of writing the path of an existing directory"""
        if spell == "slash":
            return target + os.sep, None
        if spell == "rel":
            return os.path.relpath(target, self.dir), self.dir
        if spell == "dot":
            return ".", target
        if spell == "dotdot":
            subs = sorted(n for n in os.listdir(target) if n != "ascmhl" and os.path.isdir(os.path.join(target, n)) and not os.path.islink(os.path.join(target, n)))
            if subs:
                return "..", os.path.join(target, subs[0])
        return target, None

    def create(self, sub="", opts=(), fmts=None, spell="abs"):
        arg, cwd = self.spelled(self.p(sub), spell)
        return self.cmd("create", [arg] + (S.hargs(fmts) if fmts else []) + list(opts), cwd=cwd)

    def sf(self, sels, opts=(), fmts=None, sub="", relcwd=None):
        """create -sf; sels relative to the outer root; with relcwd all paths are given relative to that cwd"""
        root = self.p(sub)
        cwd = None
        paths = [self.p(s) for s in sels]
        if relcwd is not None:
            cwd = self.p(relcwd)
            root = os.path.relpath(root, cwd)
            paths = [os.path.relpath(x, cwd) for x in paths]
        args = [root] + (S.hargs(fmts) if fmts else []) + list(opts)
        for x in paths:
            args += ["-sf", x]
        return self.cmd("create", args, cwd=cwd)

    def flatten(self, sub="", dest="out", opts=(), spell="abs", destrel=False):
        arg, cwd = self.spelled(self.p(sub), spell)
        d = os.path.join(self.dir, dest)
        if destrel:
            cwd = cwd or self.dir
            d = os.path.relpath(d, cwd)
        return self.cmd("flatten", [arg, d] + list(opts), cwd=cwd)

    # ---- tree edits
    def write(self, rel, content, keep=False):
        path = self.p(rel)
        if os.path.isdir(path) or os.path.isfile(os.path.dirname(path)):
            return
        st = os.stat(path) if keep and os.path.exists(path) else None
        os.makedirs(os.path.dirname(path), exist_ok=True)
        with open(path, "wb") as f:
            f.write(content if isinstance(content, bytes) else content.encode("utf8"))
        if st is not None:
            os.utime(path, ns=(st.st_atime_ns, st.st_mtime_ns))
        self.steps.append(f"write {rel!r} ({'same size+mtime' if keep else 'new'})")

    def rm(self, rel):
        path = self.p(rel)
        if os.path.isdir(path) and not os.path.islink(path):
            shutil.rmtree(path)
        elif os.path.lexists(path):
            os.remove(path)
        self.steps.append(f"rm {rel!r}")

    def mv(self, a, b):
        if os.path.lexists(self.p(a)) and not os.path.lexists(self.p(b)):
            os.makedirs(os.path.dirname(self.p(b)), exist_ok=True)
            os.rename(self.p(a), self.p(b))
            self.steps.append(f"mv {a!r} {b!r}")

    def aux(self, name, text):
        """a file next to (not inside) the root, e.g. an ignore spec for -ii"""
        path = os.path.join(self.dir, name)
        with open(path, "wb") as f:
            f.write(text.encode("utf8"))
        return path

    def done(self, key=None):
        """register the case; non-trivial iff at least one written file was validated"""
        self.run.case(
            self.cid,
            (self.cid if key is None else key) if self.files else None,
            sample={"case": self.cid, "files_validated": self.files, "features": sorted(self.feats)[:12]},
        )
        ALLFEATS.update(self.feats)
        STATS["files"] += self.files
        STATS["commands"] += sum(1 for s in self.steps if " -> exit " in s)
        shutil.rmtree(self.dir, ignore_errors=True)


ALLFEATS = set()
STATS = {"files": 0, "commands": 0, "harness_errors": []}


def guarded(run, cid, fn):
    """run one case; an exception of the harness itself is recorded (stderr + summary), it is not a verdict"""
    try:
        fn()
    except Exception as e:  # noqa
        import traceback

        STATS["harness_errors"].append({"case": cid, "error": repr(e)[:200]})
        print(f"[c11] harness error in {cid}: {e!r}\n{traceback.format_exc()[-800:]}", file=sys.stderr)


def set_tz(z):
    if z is None:
        os.environ.pop("TZ", None)
    else:
        os.environ["TZ"] = z
    time.tzset()


# ------------------------------------------------------------------------------------------------ value pools
CREATOR = {
    "--author_name": ['Jörg "J" O\'Neil & <Co>', "-", ""],
    "--author_email": ["jörg+mhl@exämple.co.uk", "o'brien&co@sub.example.com", "a@b.c"],
    "--author_phone": ["+49 (0)89 / 123 & 456", ""],
    "--author_role": ["DIT <2nd unit>", "\u2028"],
    "--location": ['Stage 5, "Bldg" <B> & C\u2028x', " "],
    "--comment": ["multi\nline\tcomment ]]> &amp; <!-- \U0001f3ac -->", ""],
}
PATTERNS = ["*.txt", "A/deep/", "/c.txt", "**/x.bin", "!a.txt", "a&b<c>*", " lead", "tr ail ", "#hash", "sub/**/", "[ab].txt", "\\!bang"]
II_TEXT = "*.txt\n\n# a comment line\nA/deep/\n!keep.txt\r\n/z/\n<&>'\"\nlast-without-newline"
ZONES_QUICK = [
    "UTC",
    "Asia/Kathmandu",
    "Australia/Lord_Howe",
    "Pacific/Marquesas",
    "CET-1CEST,M3.5.0,M10.5.0/3",
    "EST5EDT,M3.2.0,M11.1.0",
    "<+1245>-12:45<+1345>,M9.5.0/2:45,M4.1.0/3:45",
    "<-03>3",
]
ZONES_MORE = [
    "Europe/Berlin",
    "America/St_Johns",
    "Pacific/Kiritimati",
    "Pacific/Pago_Pago",
    "Asia/Tehran",
    "America/Sao_Paulo",
    "Europe/Dublin",
    "Africa/Casablanca",
    "<+14>-14",
    "<-12>12",
    "NZST-12NZDT,M9.5.0,M4.1.0/3",
    "GMT0BST,M3.5.0/1,M10.5.0",
    "<+0530>-5:30",
    "AEST-10AEDT,M10.1.0,M4.1.0/3",
]
# instants (UTC seconds): both sides of / inside European and US switches of 2021, epoch, far past (POSIX zones only), far future
INSTANTS = [
    1616893199,  # 2021-03-28 00:59:59Z  last second before the EU spring gap
    1616893200,  # 2021-03-28 01:00:00Z  first second after it
    1635640200,  # 2021-10-31 00:30Z     02:30 CEST (first pass of the repeated hour)
    1635643800,  # 2021-10-31 01:30Z     02:30 CET (second pass)
    1636263000,  # 2021-11-07 05:30Z     01:30 EDT (first pass in US zones)
    1636266600,  # 2021-11-07 06:30Z     01:30 EST (second pass)
    1617456600,  # 2021-04-03 13:30Z     Chatham / Lord Howe / NZ autumn switch
    0,
    1,
    4102444800,  # 2100-01-01
    951782400.999999,  # 2000-02-29 with a sub-second part
    315532800,  # 1980-01-01
]
NAMEPOOL = ["n.bin", "sp ace.txt", "Ü.txt", "Cafe\u0301.txt", "a&b<c>'d\".txt", "line\u2028sep.txt", "Clips", "Clips_proxy", "Clips.txt", "x\ty.txt", "\U0001f3ac.mov", ".hidden", "trailing.", "-dash.txt"]


def fmt_orders(tier):
    """format sets INCLUDING request orders that differ from the schema's element order, and repeats"""
    base = [["xxh64", "md5"], ["md5"], ["md5", "c4"], ["xxh64", "c4", "md5"], ["md5", "md5"], list(reversed(W.FORMATS))]
    if tier == "thorough":
        base = [list(c) for r in (1, 2) for c in itertools.permutations(W.FORMATS, r)]
        base += [list(W.FORMATS), list(reversed(W.FORMATS)), ["xxh3", "sha1", "xxh3"], ["md5", "md5"], ["xxh128", "c4", "xxh64", "sha1"]]
    return base


# ------------------------------------------------------------------------------------------------ case families
def fam_fresh(run, sch):
    """first and second generation + flatten on every (tree, nesting, format order, option variant, root spelling)"""
    fsets = fmt_orders(run.tier)
    variants = [
        ("plain", lambda w: []),
        ("n", lambda w: ["-n"]),
        ("i", lambda w: ["-i", "*.txt", "-i", "a&b<c>*"]),
        ("ii", lambda w: ["-ii", w.aux("ign.txt", II_TEXT)]),
        ("dr", lambda w: ["-dr"]),
        ("creator", lambda w: ["--author_name", CREATOR["--author_name"][0], "--author_email", CREATOR["--author_email"][0], "--comment", CREATOR["--comment"][0]]),
    ]
    spells = ("abs", "slash", "rel", "dot", "dotdot")
    thorough = run.tier == "thorough"
    count = 0
    for tree in S.TREES:
        for ni, nested in enumerate(S.NESTED[tree]):
            rich = thorough or (tree in ("deep", "names") and ni <= 1)
            for fi, fmts in enumerate(fsets if rich else fsets[:1]):
                count += 1
                if thorough:
                    vsel = variants if (fi == 0 or fi % 7 == 0) else variants[:1]
                elif fi == 0 and ni == 0 and tree in ("deep", "names", "prefix", "emptyfolder", "onlydirs"):
                    vsel = variants
                elif fi == 0:
                    vsel = [variants[0], variants[1 + count % 5]]  # plain + one rotating option
                else:
                    vsel = variants[:1]
                for vname, vfn in vsel:
                    if fi == 0 and vname == "plain" and (thorough or (ni == 0 and tree in ("deep", "names", "emptyfolder"))):
                        ssel = spells
                    elif fi == 0 and vname == "plain" and ni == len(S.NESTED[tree]) - 1:
                        ssel = ("abs", spells[1 + count % 4])  # one rotating spelling on the deepest nesting
                    else:
                        ssel = ("abs",)
                    for spell in ssel:
                        cid = f"fresh/{tree}/{ni}/{'+'.join(fmts)}/{vname}/{spell}"
                        if not run.want(cid):
                            continue

                        def case():
                            w = World(run, sch, cid, tree)
                            for nr in nested:
                                w.create(nr, fmts=fmts)
                            opts = vfn(w)
                            w.create("", opts, fmts=fmts, spell=spell)
                            if thorough or (vname == "plain" and spell == "abs"):
                                extra = [f for f in ("c4", "md5", "sha1") if f not in fmts][:1]  # one format new to the history
                                w.create("", opts, fmts=list(reversed(fmts)) + extra, spell=spell)
                            w.flatten("", "out", ["-n"] if vname == "n" else (opts if vname in ("i", "ii", "creator") else []), spell=spell, destrel=(spell == "rel"))
                            w.done()

                        guarded(run, cid, case)


def fam_rootname(run, sch):
    """the root folder's and the nested roots' names end up in manifest file names, chain <path> and reference <path>"""
    names = ["R&D <1> 'q' \"d\"", "sp ace", "Cafe\u0301 Ü", "line\u2028sep", "a;b=c%20#?", "\U0001f3ac", "dot.", "-n"]
    if run.tier == "thorough":
        names += ["tab\there", "new\nline", "0001_x_2020-01-01_000000Z.mhl", "ascmhl_chain.xml", "x" * 120]
    for i, name in enumerate(names):
        cid = f"rootname/{i}"
        if not run.want(cid):
            continue

        def case():
            inner = names[(i + 1) % len(names)]
            w = World(run, sch, cid, {f"{inner}/in/f.bin": "1", f"{inner}/g.txt": "2", "h.txt": "3", f"{inner}_proxy/p": "4"}, rootname=name)
            arg = ["./" + name] if name.startswith("-") else None
            w.create(f"{inner}/in", fmts=["md5"])
            w.create(inner, fmts=["c4", "md5"])
            if arg:
                w.cmd("create", ["-h", "md5", "--", "./" + name], cwd=w.dir)
            else:
                w.create("", fmts=["md5"])
            w.sf([f"{inner}/in/f.bin"], fmts=["md5"])
            w.create("", fmts=["xxh64", "md5"], spell="dot")
            w.flatten("", "out", spell="slash")
            w.flatten(inner, "out")
            w.done()

        guarded(run, cid, case)


def fam_creator(run, sch):
    """every subset of the six creator options (thorough) / a covering selection (quick), on create, -sf and flatten"""
    keys = list(CREATOR)
    subsets = [c for r in range(0, 7) for c in itertools.combinations(range(6), r)]
    if run.tier != "thorough":
        subsets = [(), (0,), (1,), (2,), (3,), (4,), (5,), (0, 1), (3, 4), (1, 5), (0, 1, 2, 3), (2, 4, 5), (0, 1, 2, 3, 4, 5)]
    for si, sub in enumerate(subsets):
        for vi in range(3 if run.tier == "thorough" else 2):
            cid = f"creator/{''.join(str(k) for k in sub) or 'none'}/{vi}"
            if not run.want(cid):
                continue

            def case():
                opts = []
                for k in sub:
                    vals = CREATOR[keys[k]]
                    opts += [keys[k], vals[(vi + k) % len(vals)]]
                w = World(run, sch, cid, {"A/a.txt": "a", "b.txt": "b" * 1234})
                w.create("A", opts, fmts=["md5"])
                w.create("", opts, fmts=["md5", "c4"])
                w.sf(["A/a.txt"], opts, fmts=["md5"])
                w.flatten("", "out", opts)
                w.done()

            guarded(run, cid, case)


def fam_sf(run, sch):
    """-sf generations: reference-only parents (1..3 levels), duplicates, folders, empty selections, relative paths"""
    table = [
        ("deep", [], ["A/a.txt"]),
        ("deep", [], ["A", "A/a.txt", "A/a.txt"]),
        ("deep", ["A"], ["A/deep/x.bin"]),
        ("deep", ["A", "A/deep"], ["A/deep/x.bin", "c.txt"]),
        ("deep", ["A", "A/deep"], ["A/deep/x.bin"]),
        ("deep", ["A"], ["E"]),
        ("deep", ["z"], ["z/empty.bin"]),
        ("deep", ["A", "B"], ["A/a.txt", "B/b.txt"]),
        ("onlydirs", ["E"], ["E", "F"]),
        ("names", ["sp ace", S.NFD], ["sp ace/fi le.txt", next(k for k in S.TREES["names"] if k.startswith(S.NFD)), "line\u2028sep.txt"]),
        ("prefix", ["Clips", "Clips/sub"], ["Clips_proxy/y.mov", "Clips/sub/z.mov", "Clips.txt"]),
        ("levels", ["L1/L2/L3", "L1/L2", "L1"], ["L1/L2/L3/clip.bin"]),
        ("levels", ["L1/L2/L3", "L1"], ["L1/L2/L3/clip.bin", "L1/L2/two.bin"]),
        ("lookalike", ["ascmhl_x"], ["ascmhl_x/f.txt", "sub"]),
        ("prefix", ["Clips"], ["Clips/x.mov", "Clips", "Clips/sub/z.mov", "Clips/sub"]),
    ]
    fsets = [["md5"], ["xxh64", "c4", "md5"]] if run.tier != "thorough" else fmt_orders("quick")
    for ti, (tree, nested, sel) in enumerate(table):
        for fi, fmts in enumerate(fsets):
            for mi, mode in enumerate(("fresh", "prior", "relcwd")):
                if run.tier != "thorough" and not (fi == ti % 2 and (mi == 0 or mi == 1 + ti % 2)):
                    continue  # quick: one format order per selection, fresh + one of prior / relcwd
                cid = f"sf/{ti}/{'+'.join(fmts)}/{mode}"
                if not run.want(cid):
                    continue

                def case():
                    w = World(run, sch, cid, tree)
                    for nr in nested:
                        w.create(nr, fmts=fmts[:1])
                    if mode == "prior":
                        w.create("", fmts=fmts)
                    relcwd = None
                    if mode == "relcwd":
                        relcwd = os.path.dirname(sel[0]) or None
                    w.sf(sel, fmts=fmts, relcwd=relcwd)
                    w.sf(sel + sel[:1], ["-i", "*.mov"], fmts=list(reversed(fmts)), relcwd=relcwd)
                    # the same selection driven from the innermost nested history and from the outer root again
                    if nested:
                        inner = [s for s in sel if s == nested[0] or s.startswith(nested[0] + os.sep)]
                        if inner:
                            w.sf(inner, fmts=fmts, sub=nested[0])
                    w.create("", ["-n"], fmts=fmts)
                    w.sf(sel, fmts=["sha1"])
                    w.flatten("", "out")
                    for nr in nested[:1]:
                        w.flatten(nr, "out")
                    w.done()

                guarded(run, cid, case)


def fam_history(run, sch):
    """scripted multi-generation histories: format rotation (>= 11 generations), failing generations, renames,
    -n generations, late / removed children, tampering, empty folders"""
    allsix = list(reversed(W.FORMATS))

    def rotate(w):
        seq = [["xxh64"], ["md5", "xxh64"], ["c4"], ["sha1", "md5"], allsix, ["xxh3", "xxh128"], ["md5", "md5"], ["c4", "xxh64"], ["sha1"], ["xxh128", "c4", "md5"], ["xxh3"], ["md5"]]
        for i, f in enumerate(seq):
            if i % 4 == 3:
                w.sf(["A/deep/x.bin", "c.txt"], fmts=f)
            w.create("", ["-n"] if i % 5 == 4 else [], fmts=f)
        w.flatten()
        w.flatten("A")

    def failing(w):
        w.create("", fmts=["md5"])
        w.write("a.txt", "CHANGED")
        w.create("", fmts=["md5"])  # exit 11, action failed
        w.create("", fmts=["sha1", "md5"])  # still failing, the new format must not be recorded as 'new'
        w.create("", fmts=["sha1"])  # only a format that was never recorded for the failing file
        w.sf(["a.txt", "b.txt"], fmts=["c4", "md5"])
        w.rm("b.txt")
        w.create("", fmts=["md5"])  # exit 10/11, missing file
        w.write("a.txt", "a")
        w.create("", fmts=["xxh64", "md5"])
        w.flatten()

    def samesize(w):
        w.create("", fmts=["md5", "c4"])
        w.write("A/a.txt", "Z", keep=True)
        w.write("A/deep/x.bin", b"y" * 10, keep=True)
        w.create("", fmts=["c4"])
        w.create("A", fmts=["md5"])
        w.create("", ["-n"], fmts=["sha1", "c4"])
        w.flatten()

    def renames(w):
        w.create("", fmts=["md5"])
        w.mv("c.txt", "c2 & <x>.txt")
        w.create("", ["-dr"], fmts=["md5"])
        w.mv("B", "B2")
        w.mv("A/deep", "A/deeper")
        w.create("", ["-dr"], fmts=["xxh64", "md5"])  # (a format set without md5 would abort -dr on the renamed folders)
        w.mv("c2 & <x>.txt", "z/c3.txt")
        w.mv("A", "A2")
        w.create("", ["-dr"], fmts=["xxh64", "md5"])
        w.flatten()
        w.mv("A2", "A3")
        w.mv("z/c3.txt", "c4.txt")
        w.create("", ["-dr", "-n"], fmts=["xxh64", "md5"])  # last: renamed folders without directory hashes
        w.create("", ["-dr"], fmts=["md5"])

    def renames_nested(w):
        w.create("A/deep", fmts=["md5"])
        w.create("A", fmts=["md5"])
        w.create("", fmts=["md5"])
        w.mv("A", "A2")
        w.create("", ["-dr"], fmts=["md5"])
        w.mv("A2/deep", "A2/deep2")
        w.mv("A2/a.txt", "A2/a2.txt")
        w.create("", ["-dr"], fmts=["sha1", "md5"])
        w.create("A2", ["-dr"], fmts=["md5"])
        w.flatten()
        w.flatten("A2")

    def late_child(w):
        w.create("", fmts=["md5"])
        w.create("A", fmts=["c4"])  # a history that appears inside an already sealed parent
        w.create("", fmts=["md5"])
        w.create("A/deep", fmts=["xxh64"])
        w.sf(["A/deep/x.bin"], fmts=["md5"])
        w.create("", ["-n"], fmts=["c4", "md5"])
        w.rm("A/ascmhl")  # the child history disappears: exit 30 expected, still only valid files
        w.create("", fmts=["md5"])
        w.create("", fmts=["md5"])
        w.flatten()

    def tamper(w):
        w.create("A", fmts=["md5"])
        w.create("", fmts=["md5"])
        for m in W.manifests(w.p("A"))[:1]:
            with open(m, "ab") as f:
                f.write(b"<!-- appended -->\n")
        w.steps.append("append an XML comment to A's first manifest")
        w.create("", fmts=["md5"])  # exit 31
        w.create("A", fmts=["md5"])
        os.remove(W.chain_path(w.p()))
        w.steps.append("remove the root chain file")
        w.create("", fmts=["md5"])  # exit 32
        w.sf(["c.txt"], fmts=["md5"])
        w.flatten()

    def empties(w):
        w.create("", fmts=["md5"])
        w.create("", ["-n"], fmts=["c4", "md5"])
        w.create("E", fmts=["md5"])
        w.create("", fmts=["md5"])
        w.sf(["E"], fmts=["md5"])
        w.sf(["E", "F"], fmts=["md5"])
        w.create("", ["-i", "*"], fmts=["md5"])  # everything ignored from now on
        w.create("", fmts=["md5"])
        w.flatten()
        w.flatten("E")

    def emptyroot(w):
        for opts in ([], ["-n"], ["-dr"], []):
            w.create("", opts, fmts=["xxh64", "md5"])
        w.sf(["."], fmts=["md5"])
        w.flatten()
        w.write("late.txt", "x")
        w.create("", fmts=["md5"])
        w.rm("late.txt")
        w.create("", fmts=["md5"])
        w.flatten("", "out", ["-n"])

    def links(w):
        w.create("", fmts=["md5"])  # a dangling link: whatever happens, nothing invalid may be left
        w.rm("broken")
        w.create("", ["-n"], fmts=["md5", "c4"])
        w.sf(["lnk.txt", "real/r.txt"], fmts=["md5"])
        w.create("", fmts=["md5"])
        w.rm("dirlnk")
        w.create("", fmts=["c4", "md5"])
        w.flatten()

    def sizes(w):
        w.create("", fmts=["md5", "xxh64"])
        w.write("at.bin", b"\1" * M, keep=True)
        w.create("", fmts=["xxh64"])
        w.flatten()

    def many(w):
        n = 25 if run.tier == "thorough" else 13
        for i in range(n):
            if i % 6 == 2:
                w.write(f"g{i}.bin", str(i))
            if i % 6 == 4:
                w.sf(["a.txt"], fmts=["md5"])
            else:
                w.create("", ["-i", f"*.p{i}"] if i % 3 == 0 else [], fmts=["md5"] if i % 2 else ["c4", "md5"])
        w.flatten()

    def grow_ignore(w):
        w.create("", fmts=["md5"])
        for i, pat in enumerate(PATTERNS):
            w.write(f"new{i}.txt", "n")
            w.create("", ["-i", pat], fmts=["md5"])
        w.create("", ["-ii", w.aux("ign.txt", II_TEXT), "-i", "!new1.txt"], fmts=["md5"])
        w.flatten("", "out", ["-i", "x&y", "-ii", w.aux("ign2.txt", "one\ntwo\n")])
        w.create("", ["-i", ""], fmts=["md5"])  # an empty pattern, last step on purpose

    def iiforms(w):
        ign = w.aux("ign.txt", II_TEXT)
        w.cmd("create", [".", "-h", "md5", "-ii", os.path.relpath(ign, w.p("A"))], cwd=w.p("A"))
        w.cmd("create", ["t", "-h", "md5", "-ii", "ign.txt", "-i", "B/", "-i", "B/"], cwd=w.dir)
        w.cmd("create", [w.p(), "-h", "md5", "-ii", w.aux("empty.txt", "")])
        w.cmd("create", [w.p(), "-h", "md5", "-ii", w.aux("blank.txt", "\n\n")], cwd=w.p("B"))
        w.cmd("flatten", ["t/", "out", "-ii", "ign.txt"], cwd=w.dir)
        w.cmd("flatten", [".", "../flat2", "-i", "*.bin"], cwd=w.p())

    scripts = [
        ("rotate", "deep", ["A"], rotate),
        ("rotate-flat", "deep", [], rotate),
        ("failing", "flat", [], failing),
        ("samesize", "deep", ["A"], samesize),
        ("renames", "deep", [], renames),
        ("renames-nested", "deep", [], renames_nested),
        ("late-child", "deep", [], late_child),
        ("tamper", "deep", [], tamper),
        ("empties", "onlydirs", [], empties),
        ("emptyroot", "emptyfolder", [], emptyroot),
        ("links", {"real/r.txt": "r", "lnk.txt": ("link", "real/r.txt"), "dirlnk": ("link", "real"), "broken": ("link", "nowhere"), "e.bin": b""}, [], links),
        ("sizes", {"below.bin": b"\0" * (M - 1), "at.bin": b"\0" * M, "above.bin": b"\0" * (M + 1), "empty.bin": b"", "E/": ""}, [], sizes),
        ("many", "flat", [], many),
        ("grow-ignore", "deep", ["A"], grow_ignore),
        ("ii-forms", "deep", [], iiforms),
    ]
    for name, tree, nested, fn in scripts:
        cid = f"history/{name}"
        if not run.want(cid):
            continue

        def case():
            w = World(run, sch, cid, tree)
            for nr in nested:
                w.create(nr, fmts=["md5"])
            fn(w)
            w.done()

        guarded(run, cid, case)


def fam_tz(run, sch):
    """file and folder mtimes on both sides of / inside DST switches, under zones with 30/45 minute offsets"""
    zones = ZONES_QUICK + (ZONES_MORE if run.tier == "thorough" else [])
    old = os.environ.get("TZ")
    try:
        for zi, z in enumerate(zones):
            cid = f"tz/{zi}"
            if not run.want(cid):
                continue

            def case():
                z2 = zones[(zi + 3) % len(zones)]  # the zone the later generations are written in
                posix = all("/" not in x or x.startswith("<") for x in (z, z2))
                # 1900, 1969: only where both zones are POSIX rule strings (IANA zones carry local mean time with a
                # seconds part for old dates, see fam_probe)
                inst = list(INSTANTS) + ([-2208988800, -1] if posix else [])
                tree = {f"d{i % 3}/f{i}.bin": str(i) for i in range(len(inst))}
                w = World(run, sch, cid, tree)
                for i, ts in enumerate(inst):
                    os.utime(w.p(f"d{i % 3}/f{i}.bin"), (ts, ts))
                for i in range(3):
                    os.utime(w.p(f"d{i}"), (inst[i + 2], inst[i + 2]))
                w.steps.append(f"TZ={z}; mtimes {inst}")
                set_tz(z)
                w.create("d0", fmts=["md5"])
                w.create("", fmts=["md5", "c4"])
                set_tz(z2)
                w.sf(["d1/f1.bin", "d0/f0.bin"], fmts=["md5"])
                w.create("", ["-n"], fmts=["c4"])
                w.flatten()
                set_tz(z)
                w.flatten("", "out2")
                w.done()

            guarded(run, cid, case)
            set_tz(old)
    finally:
        set_tz(old)


# ---- crashes: the command runs in a forked child that dies (os._exit) at its k-th file-system write event
def _child(kill_at, fn, wfd):
    import builtins

    trace = []
    mutating = {"os.rename", "os.mkdir", "os.remove", "os.rmdir", "os.truncate", "os.link", "os.symlink", "os.utime", "os.chmod", "shutil.move", "shutil.rmtree", "shutil.copyfile"}

    def tick(kind, path):
        trace.append(f"{kind}\t{os.path.basename(os.fsdecode(path)) if isinstance(path, (str, bytes)) else '?'}")
        if len(trace) == kill_at:
            os._exit(77)

    def hook(ev, args):
        if ev == "open":
            flags = args[2] if len(args) > 2 else 0
            if isinstance(flags, int) and flags & (os.O_WRONLY | os.O_RDWR | os.O_CREAT | os.O_TRUNC | os.O_APPEND):
                tick("open", args[0])
        elif ev in mutating:
            tick(ev.split(".")[-1], args[1] if ev == "os.rename" else args[0])

    real_open = builtins.open

    class Torn:
        """a file opened for writing: the k-th event may be a write that reaches the disk only half"""

        def __init__(self, f):
            self._f = f

        def write(self, b):
            trace.append(f"write\t{os.path.basename(str(getattr(self._f, 'name', '?')))}")
            if len(trace) == kill_at:
                self._f.write(b[: len(b) // 2])
                self._f.flush()
                os._exit(77)
            return self._f.write(b)

        def __getattr__(self, k):
            return getattr(self._f, k)

        def __enter__(self):
            return self

        def __exit__(self, *a):
            return self._f.__exit__(*a)

        def __iter__(self):
            return iter(self._f)

    def my_open(file, mode="r", *a, **k):
        f = real_open(file, mode, *a, **k)
        if any(c in mode for c in "wax+"):
            return Torn(f)
        return f

    sys.addaudithook(hook)
    builtins.open = my_open
    try:
        fn()
    except BaseException:
        pass
    os.write(wfd, "\n".join(trace).encode("utf8", "replace"))
    os._exit(0)


def crashed(fn, kill_at):
    """run fn() in a forked child that dies at its kill_at-th file-system write event (0 = never);
    returns (killed, trace of 'kind<TAB>file name' of a complete run)"""
    sys.stdout.flush()
    sys.stderr.flush()
    r, wfd = os.pipe()
    pid = os.fork()
    if pid == 0:
        os.close(r)
        try:
            _child(kill_at, fn, wfd)
        finally:
            os._exit(3)
    os.close(wfd)
    data = b""
    while True:
        chunk = os.read(r, 65536)
        if not chunk:
            break
        data += chunk
    os.close(r)
    _, status = os.waitpid(pid, 0)
    code = os.waitstatus_to_exitcode(status)
    return code == 77, [x for x in data.decode("utf8", "replace").split("\n") if x]


def crash_points(trace, rnd):
    """quick tier: one kill point per class of event (kind x kind of file x first/middle/last write), plus the last"""
    classes = {}
    writes = {}
    for i, line in enumerate(trace, 1):
        kind, _, name = line.partition("\t")
        fc = "manifest" if ".mhl" in name else ("directory" if name.startswith(("ascmhl_chain", "ascmhl_collection")) else "other")
        if kind == "write":
            writes.setdefault(name, []).append(i)
            continue
        classes.setdefault((kind, fc), []).append(i)
    for name, idx in writes.items():
        fc = "manifest" if ".mhl" in name else ("directory" if name.startswith(("ascmhl_chain", "ascmhl_collection")) else "other")
        classes.setdefault(("write-first", fc), []).append(idx[0])
        classes.setdefault(("write-last", fc), []).append(idx[-1])
        for i in idx[1:-1]:
            classes.setdefault(("write-mid", fc), []).append(i)
    return sorted({rnd.choice(v) for v in classes.values()} | {len(trace)})


def fam_crash(run, sch):
    """a command dies at a file-system write event; what it left under final names must be valid, and so must everything the
    following commands write"""
    scen = [
        ("create-nested-first", "deep", ["A", "A/deep"], 0, lambda w: ("create", [w.p(), "-h", "md5", "-h", "c4"])),
        ("create-nested-next", "deep", ["A"], 2, lambda w: ("create", [w.p(), "-h", "c4"])),
        ("sf-three-levels", "levels", ["L1/L2/L3", "L1/L2", "L1"], 1, lambda w: ("create", [w.p(), "-h", "md5", "-sf", w.p("L1/L2/L3/clip.bin")])),
        ("flatten", "deep", [], 2, lambda w: ("flatten", [w.p(), os.path.join(w.dir, "out")])),
        ("flatten-again", "flat", [], 1, lambda w: ("flatten", [w.p(), os.path.join(w.dir, "out")])),
    ]
    for name, tree, nested, priors, mk in scen:
        if run.only and not run.only.startswith(f"crash/{name}/"):
            continue

        def setup(cid):
            w = World(run, sch, cid, tree)
            for nr in nested:
                w.create(nr, fmts=["md5"])
            for _ in range(priors):
                w.create("", fmts=["md5"])
            if name == "flatten-again":
                w.flatten()
            return w

        w0 = setup(f"crash/{name}/count")
        cmdname, args = mk(w0)
        _, trace = crashed(lambda: W.run(cmdname, args), 0)
        shutil.rmtree(w0.dir, ignore_errors=True)
        total = len(trace)
        ks = list(range(1, total + 1))
        if run.tier != "thorough" and not run.only:
            ks = crash_points(trace, random.Random(run.seed * 1000003 + len(name)))
        for k in ks:
            cid = f"crash/{name}/{k}"
            if not run.want(cid):
                continue

            def case():
                w = setup(cid)
                cmdname, args = mk(w)
                killed, _ = crashed(lambda: W.run(cmdname, args), k)
                ev = trace[k - 1].replace("\t", " ") if k <= total else "?"
                w.steps.append(f"{cmdname} {' '.join(w.short(a) for a in args)} KILLED at write event {k} of {total} ({ev})" if killed else f"{cmdname} ran to its end (event {k} not reached)")
                w.feats.add("killed" if killed else "not-killed")
                w.check(f"{cmdname} killed at file-system event {k}/{total}: {ev}")
                w.create("", fmts=["c4", "md5"])
                w.flatten()
                if run.tier == "thorough":
                    w.create("", fmts=["md5"])
                    for nr in nested[:1]:
                        w.create(nr, fmts=["md5"])
                w.done()

            guarded(run, cid, case)


def fam_random(run, sch):
    """seeded random histories: every command is followed by the validation of everything that changed"""
    count, length = (400, 14) if run.tier == "thorough" else (14, 9)
    zones = [z for z in ZONES_QUICK + ZONES_MORE]
    old = os.environ.get("TZ")
    for hi in range(count):
        cid = f"random/{run.seed}/{hi}"
        if not run.want(cid):
            continue

        def case():
            rnd = random.Random(run.seed * 7919 + hi)
            tree = rnd.choice(sorted(S.TREES))
            w = World(run, sch, cid, tree)
            hroots = [""]

            def entries(kind):
                out = []
                for dp, dns, fns in os.walk(w.root):
                    dns[:] = sorted(d for d in dns if d != "ascmhl" and not os.path.islink(os.path.join(dp, d)))
                    for n in sorted(fns if kind == "f" else dns):
                        out.append(os.path.relpath(os.path.join(dp, n), w.root))
                return out

            def rfmts():
                f = rnd.sample(W.FORMATS, rnd.choice([1, 1, 2, 2, 3, 6]))
                if rnd.random() < 0.15:
                    f.append(f[0])
                return f

            def ropts(flat=False):
                o = []
                if rnd.random() < 0.25:
                    o.append("-n")
                if not flat and rnd.random() < 0.3:
                    o.append("-dr")
                if rnd.random() < 0.25:
                    o += ["-i", rnd.choice(PATTERNS)]
                if rnd.random() < 0.1:
                    o += ["-ii", w.aux("ign.txt", II_TEXT)]
                for k, vals in CREATOR.items():
                    if rnd.random() < 0.15:
                        o += [k, rnd.choice(vals)]
                return o

            for nr in rnd.choice(S.NESTED[tree]):
                w.create(nr, fmts=rfmts())
                hroots.append(nr)
            for _ in range(length):
                hroots = [h for h in hroots if h == "" or os.path.isdir(w.p(h))]
                op = rnd.choice(["create"] * 5 + ["sf"] * 3 + ["flatten"] * 2 + ["edit", "edit", "rm", "mv", "mv", "add", "add", "mkdir", "child", "tz"])
                files, dirs = entries("f"), entries("d")
                if op == "create":
                    w.create(rnd.choice(hroots), ropts(), fmts=rfmts(), spell=rnd.choice(["abs", "abs", "slash", "rel", "dot", "dotdot"]))
                elif op == "sf" and (files or dirs):
                    sub = rnd.choice(hroots)
                    pool = [e for e in files + dirs if not sub or e.startswith(sub + os.sep)] or files + dirs
                    sel = [rnd.choice(pool) for _ in range(rnd.choice([1, 1, 2, 3]))]
                    inside = all(not sub or e.startswith(sub + os.sep) for e in sel)
                    w.sf(sel, ropts(), fmts=rfmts(), sub=sub if inside else "", relcwd=rnd.choice([None, None, ""]))
                elif op == "flatten":
                    w.flatten(rnd.choice(hroots), rnd.choice(["out", "out2"]), [x for x in ropts(True)], spell=rnd.choice(["abs", "slash", "dot"]))
                elif op == "edit" and files:
                    f = rnd.choice(files)
                    size = os.path.getsize(w.p(f))
                    keep = rnd.random() < 0.5
                    w.write(f, bytes(rnd.getrandbits(8) for _ in range(size)) if keep else f"edit{rnd.random()}", keep=keep)
                elif op == "rm" and files:
                    w.rm(rnd.choice(files))
                elif op == "mv" and (files or dirs):
                    src = rnd.choice(files + dirs)
                    w.mv(src, os.path.join(os.path.dirname(src), rnd.choice(NAMEPOOL)))
                elif op == "add":
                    w.write(os.path.join(rnd.choice([""] + dirs), rnd.choice(NAMEPOOL)), rnd.choice(["", "x", "new content", "k" * 1500]))
                elif op == "mkdir":
                    d = w.p(os.path.join(rnd.choice([""] + dirs), rnd.choice(NAMEPOOL) + "_d"))
                    if not os.path.lexists(d):
                        os.makedirs(d)
                        w.steps.append(f"mkdir {w.short(d)}")
                elif op == "child" and dirs:
                    d = rnd.choice(dirs)
                    w.create(d, ropts(), fmts=rfmts())
                    if d not in hroots:
                        hroots.append(d)
                elif op == "tz":
                    z = rnd.choice(zones)
                    set_tz(z)
                    w.steps.append(f"TZ={z}")
            w.create("", fmts=rfmts())
            w.flatten()
            w.done()

        guarded(run, cid, case)
        set_tz(old)


def fam_abort(run, sch):
    """runs that end with a non-zero exit code BECAUSE writing fails half way (a name or an option value that the XML
    library rejects): whatever is left on disk under a manifest / chain / collection name must still be schema-valid"""
    bad_name = "a\x01b.txt"
    for cid, tree, prior, what in [
        ("abort/name/second-generation", "deep", True, "name"),
        ("abort/name/first-generation", "deep", False, "name"),
        ("abort/name/nested-parent", "deep", True, "nested"),
        ("abort/comment/create", "flat", True, "comment"),
        ("abort/comment/flatten", "flat", True, "flatten"),
        ("abort/location/sf", "deep", True, "sf"),
    ]:
        if not run.want(cid):
            continue
        w = World(run, sch, cid, tree)
        if what == "nested":
            w.create("A", fmts=["md5"])
        if prior:
            w.create("", fmts=["md5", "c4"])
        if what in ("name", "nested"):
            w.write(("A/" if what == "nested" else "B/") + bad_name, "x")
            w.create("", fmts=["md5"])
        elif what == "comment":
            w.create("", fmts=["md5"], opts=["--comment", "bell\x07"])
        elif what == "flatten":
            w.flatten(opts=["--comment", "bell\x07"])
        elif what == "sf":
            w.sf(["A/a.txt"], fmts=["md5"], opts=["--location", "esc\x1b"])
        # and the history must stay usable and valid afterwards
        w.create("", fmts=["md5"], opts=["-i", "*" + "\x01" + "*"] if what in ("name", "nested") else [])
        w.flatten(dest="out2")
        w.done()


def fam_probe(run, sch):
    """NOT part of the default enumeration (run with --case probe/...): environments outside the statement's quantifier
    in which the current tree writes an invalid xs:dateTime - a UTC offset that is not a whole number of minutes"""
    old = os.environ.get("TZ")
    for cid, z, ts in [("probe/tz-subminute-iana", "Africa/Monrovia", 0), ("probe/tz-subminute-posix", "XXX-1:02:03", 1600000000), ("probe/tz-lmt-old-mtime", "Asia/Kathmandu", -2208988800)]:
        if run.only != cid:
            continue
        w = World(run, sch, cid, "flat")
        os.utime(w.p("a.txt"), (ts, ts))
        w.steps.append(f"TZ={z}; mtime of a.txt = {ts}")
        set_tz(z)
        w.create("", fmts=["md5"])
        w.flatten()
        set_tz(old)
        w.done()


def main():
    run = Run(
        "C11",
        rule="case = one small history (a start tree, its nested histories and a sequence of create / create -sf / flatten commands with "
        "tree edits in between); after EVERY command every *.mhl below the world is validated against xsd/ASCMHL.xsd and every "
        "ascmhl_chain.xml / ascmhl_collection.xml against the directory XSD with lxml (files unchanged since the last step are skipped); "
        "non-trivial = the case wrote at least one file that was validated; distinct = distinct case id (family + parameters)",
        bound="families: fresh (10 trees x <= 6 nestings (<= 3 levels) x format request orders incl. repeats and non-schema order x "
        "{plain,-n,-i,-ii,-dr,creator} x root spelled abs / trailing slash / relative / '.' / '..'), rootname (XML-special, NFD, U+2028, "
        "leading dash in root and nested root names), creator (13 (quick) or all 64 (thorough) subsets of the six creator options, 2-3 "
        "value rows, e-mail always local@domain.tld), sf (15 selections x reference-only parents 1..3 levels x fresh/prior/relative cwd), "
        "history (15 scripts: >= 12 generations with rotating formats, exit 10/11/30/31/32 generations, same-size+mtime edits, file / "
        "folder / nested-root renames with -dr, late and removed children, empty folders, symlinks, files at 1 MiB +-1, 12 accumulated "
        "ignore patterns incl. negation and -ii forms), tz (8 / 22 zones incl. POSIX DST strings and 30/45-minute offsets x 12-14 mtimes "
        "around DST switches; all UTC offsets whole minutes), crash (5 commands killed at one event per class {open, first / middle / "
        "last write (torn), rename, mkdir} x {manifest, directory file} (quick) or at every file-system write event (thorough), then "
        "create + flatten), random (14 x 9 (quick) / 400 x 14 (thorough) seeded steps). Not enumerated: names / option values with "
        "characters XML cannot carry (the commands abort before writing), UTC offsets with a seconds part (--case probe/...)",
    )
    sch = Schemas()
    fams = [fam_fresh, fam_rootname, fam_creator, fam_sf, fam_history, fam_tz, fam_crash, fam_random, fam_abort, fam_probe]
    old_tz = os.environ.get("TZ")
    for fam in fams:
        if run.only and not run.only.startswith(fam.__name__[4:] + "/"):
            continue
        t0, c0, e0 = time.process_time(), STATS["commands"], run.evaluations
        fam(run, sch)
        set_tz(old_tz)
        STATS.setdefault("families", {})[fam.__name__[4:]] = {"cases": run.evaluations - e0, "commands": STATS["commands"] - c0, "cpu_s": round(time.process_time() - t0, 1)}
    run.samples.insert(0, {"commands": STATS["commands"], "files_validated": STATS["files"], "harness_errors": STATS["harness_errors"][:5], "families": STATS.get("families"), "features_seen": sorted(ALLFEATS)})
    run.finish()


if __name__ == "__main__":
    main()
