"""C16 bounded part: sizes and time stamps written by `create` / `flatten` against the statement, in many time zones.

Oracle (independent of the package):
  * size      = st_size of the file as seen by os.stat before and after the command,
  * instants  = st_mtime_ns of the file (last modification date), the wall-clock window [start, end] of the command
                (hash dates, creation date, manifest file name),
  * offset    = the offset the *zone definition* gives for the written instant.  Zones are POSIX TZ strings whose rules
                are evaluated by the small calculator below (class Zone), never by the package and never by
                datetime.astimezone; libc's localtime is only used to drop instants on which libc and the calculator
                disagree (then nobody knows what "in force" means and the instant is outside the decidable set).
  * "now" on either side of a switch is produced with the REAL clock: the zone is synthesised so that its daylight
    saving switch lies 20 minutes / 1 day / 40 days before or after the present moment (so the present lies inside
    the repeated hour, just after the gap, in summer, in winter ...).  Nothing in the package is patched or frozen.
"""
import calendar
import os
import random
import re
import shutil
import stat
import sys
import time
import xml.etree.ElementTree as ET

from . import scen as S
from . import world as W
from .common import Run

NS = W.NS
M = 1 << 20
DAY = 86400


# ------------------------------------------------------------------------------------------------ zone calculator
class Rule:
    """one POSIX TZ switch rule: ('M', month, week, weekday) | ('N', zero based day of year) | ('J', julian day
    1..365, 29 February never counted); `secs` = local wall-clock time of day at which the switch happens"""

    def __init__(self, kind, a, b=0, c=0, secs=7200):
        self.kind, self.a, self.b, self.c, self.secs = kind, a, b, c, secs

    def text(self):
        if self.kind == "M":
            d = f"M{self.a}.{self.b}.{self.c}"
        elif self.kind == "J":
            d = f"J{self.a}"
        else:
            d = f"{self.a}"
        h, r = divmod(self.secs, 3600)
        m, s = divmod(r, 60)
        return d + (f"/{h}:{m:02d}:{s:02d}" if (m or s) else f"/{h}")

    def midnight(self, year):
        """seconds since the epoch of 00:00 of the rule's day in `year`, read as if the wall clock were UTC"""
        jan1 = calendar.timegm((year, 1, 1, 0, 0, 0))
        if self.kind == "N":
            return jan1 + self.a * DAY
        if self.kind == "J":
            n = self.a - 1
            if calendar.isleap(year) and self.a >= 60:
                n += 1
            return jan1 + n * DAY
        m, w, d = self.a, self.b, self.c
        first_wd = (calendar.weekday(year, m, 1) + 1) % 7  # 0 = Sunday
        day = 1 + (d - first_wd) % 7 + 7 * (w - 1)
        while day > calendar.monthrange(year, m)[1]:
            day -= 7
        return calendar.timegm((year, m, day, 0, 0, 0))


def posix_offset(east):
    """POSIX writes offsets west-positive"""
    v = -east
    sign = "-" if v < 0 else ""
    a = abs(v)
    h, r = divmod(a, 3600)
    m, s = divmod(r, 60)
    out = f"{sign}{h}"
    if m or s:
        out += f":{m:02d}"
    if s:
        out += f":{s:02d}"
    return out


class Zone:
    def __init__(self, zid, std, dst=None, start=None, end=None, named=None, libc=False):
        self.zid, self.std, self.dst, self.start, self.end, self.named, self.libc = zid, std, dst, start, end, named, libc
        self._zi = None
        self._trans = {}
        if libc:
            self.tz = None
        elif named:
            self.tz = named
        elif dst is None:
            self.tz = "UTC0" if std == 0 else f"FXT{posix_offset(std)}"
        else:
            self.tz = f"SXT{posix_offset(std)}DXT{posix_offset(dst)},{start.text()},{end.text()}"

    def activate(self):
        if self.tz is None:
            os.environ.pop("TZ", None)
        else:
            os.environ["TZ"] = self.tz
        time.tzset()

    def offset(self, t):
        """UTC offset (seconds east) in force at instant t (seconds since the epoch)"""
        if self.libc:
            return time.localtime(t).tm_gmtoff
        if self.named:
            import datetime
            import zoneinfo

            if self._zi is None:
                self._zi = zoneinfo.ZoneInfo(self.named)
            d = datetime.datetime.fromtimestamp(int(t // 1), datetime.timezone.utc).astimezone(self._zi)
            return int(d.utcoffset().total_seconds())
        if self.dst is None:
            return self.std
        y = time.gmtime(t).tm_year
        trans = self._trans.get(y)
        if trans is None:
            trans = []
            for yy in (y - 1, y, y + 1):
                trans.append((self.start.midnight(yy) + self.start.secs - self.std, self.dst))
                trans.append((self.end.midnight(yy) + self.end.secs - self.dst, self.std))
            trans.sort()
            self._trans[y] = trans
        cur = self.std
        for at, off in trans:
            if at <= t:
                cur = off
        return cur

    def switches(self, year):
        """instants (whole seconds) in `year` at which the offset changes: first second of the new offset"""
        lo = calendar.timegm((year, 1, 1, 0, 0, 0))
        hi = calendar.timegm((year + 1, 1, 1, 0, 0, 0))
        out = []
        t = lo
        prev = self.offset(t)
        while t < hi:
            n = min(t + DAY, hi)
            cur = self.offset(n)
            if cur != prev:
                a, b = t, n
                while b - a > 1:
                    mid = (a + b) // 2
                    if self.offset(mid) == prev:
                        a = mid
                    else:
                        b = mid
                out.append(b)
                prev = cur
            t = n
        return out


def static_zones(tier):
    z = [
        Zone("utc", 0),
        Zone("berlin", 3600, 7200, Rule("M", 3, 5, 0, 7200), Rule("M", 10, 5, 0, 10800)),
        Zone("newyork", -18000, -14400, Rule("M", 3, 2, 0), Rule("M", 11, 1, 0)),
        Zone("newfoundland", -12600, -9000, Rule("M", 3, 2, 0), Rule("M", 11, 1, 0)),
        Zone("sydney", 36000, 39600, Rule("M", 10, 1, 0, 7200), Rule("M", 4, 1, 0, 10800)),
        Zone("lordhowe", 37800, 39600, Rule("M", 10, 1, 0, 7200), Rule("M", 4, 1, 0, 7200)),
        Zone("india", 19800),
        Zone("marquesas", -34200),
        Zone("kiritimati", 50400),
        Zone("bakerisland", -43200),
        Zone("chatham", 45900, 49500, Rule("M", 9, 5, 0, 9900), Rule("M", 4, 1, 0, 13500)),
        Zone("santiago", -14400, -10800, Rule("M", 9, 1, 6, 86400), Rule("M", 4, 1, 6, 86400)),
        Zone("Europe/Berlin", 0, named="Europe/Berlin"),
        Zone("America/St_Johns", 0, named="America/St_Johns"),
        Zone("Australia/Lord_Howe", 0, named="Australia/Lord_Howe"),
        Zone("unset", 0, libc=True),
    ]
    if tier == "thorough":
        z += [
            Zone("nepal", 20700),
            Zone("dublin-negative-dst", 3600, 0, Rule("M", 10, 5, 0, 7200), Rule("M", 3, 5, 0, 3600)),
            Zone("julian", 7200, 10800, Rule("J", 60, secs=0), Rule("J", 300, secs=3600)),
            Zone("twohour-dst", -10800, -3600, Rule("M", 11, 1, 0, 0), Rule("M", 2, 3, 0, 0)),
            Zone("America/New_York", 0, named="America/New_York"),
            Zone("Australia/Sydney", 0, named="Australia/Sydney"),
            Zone("Pacific/Chatham", 0, named="Pacific/Chatham"),
            Zone("Asia/Kolkata", 0, named="Asia/Kolkata"),
            Zone("Africa/Casablanca", 0, named="Africa/Casablanca"),
            Zone("America/Santiago", 0, named="America/Santiago"),
        ]
    out = []
    for zz in z:
        if zz.named and not os.path.exists(os.path.join("/usr/share/zoneinfo", zz.named)):
            continue
        out.append(zz)
    return out


def synthetic_zone(zid, now, delta, kind, std, save):
    """a zone whose switch of the given kind ('back' = daylight saving ends, 'fwd' = begins) happens at now+delta"""
    sw = int(now) + delta
    dst = std + save
    before = dst if kind == "back" else std
    g = time.gmtime(sw + before)
    near = Rule("N", g.tm_yday - 1, secs=g.tm_hour * 3600 + g.tm_min * 60 + g.tm_sec)
    if kind == "back":
        far = Rule("N", (g.tm_yday - 1 - 150) % 365, secs=7200)
        z = Zone(zid, std, dst, far, near)
    else:
        far = Rule("N", (g.tm_yday - 1 + 150) % 365, secs=7200)
        z = Zone(zid, std, dst, near, far)
    z.sw = sw
    return z


def agreed(zone, instants):
    """instants (seconds) on which the zone calculator and libc give the same offset (zone must be active)"""
    ok = []
    for t in instants:
        try:
            if time.localtime(t).tm_gmtoff == zone.offset(t):
                ok.append(t)
            else:
                sys.stderr.write(f"c16: libc and calculator disagree for {zone.zid} at {t}; instant dropped\n")
        except (OverflowError, OSError, ValueError):
            pass
    return ok


# ------------------------------------------------------------------------------------------------ ISO-8601 reader
ISO = re.compile(r"^(\d{4})-(\d{2})-(\d{2})T(\d{2}):(\d{2}):(\d{2})(?:[.,](\d+))?(Z|[+-]\d{2}(?::?\d{2})?)$")


def parse_iso(text):
    """(instant in microseconds since the epoch, offset in seconds, has fraction) or None if not well-formed"""
    if text is None:
        return None
    m = ISO.match(text)
    if not m:
        return None
    y, mo, d, h, mi, s = (int(m.group(k)) for k in range(1, 7))
    if y < 1 or not 1 <= mo <= 12 or not 1 <= d <= calendar.monthrange(y, mo)[1] or h > 23 or mi > 59 or s > 59:
        return None
    frac = m.group(7)
    us = int((frac + "000000")[:6]) if frac else 0
    o = m.group(8)
    if o == "Z":
        off = 0
    else:
        digits = o[1:].replace(":", "")
        oh, om = int(digits[:2]), int(digits[2:] or 0)
        if oh > 14 or om > 59:
            return None
        off = (oh * 3600 + om * 60) * (-1 if o[0] == "-" else 1)
    inst = (calendar.timegm((y, mo, d, h, mi, s)) - off) * 1000000 + us
    return inst, off, frac is not None


def show(us, off):
    """the instant in the extended format with the given offset (for messages)"""
    sec = us // 1000000
    g = time.gmtime(sec + off)
    a = abs(off)
    return "%04d-%02d-%02dT%02d:%02d:%02d%s%02d:%02d" % (g[0], g[1], g[2], g[3], g[4], g[5], "-" if off < 0 else "+", a // 3600, a % 3600 // 60)


FILENAME = re.compile(r"^(?:\d{4,}_.*|packinglist_.*)_(\d{4})-(\d{2})-(\d{2})_(\d{2})(\d{2})(\d{2})Z\.mhl$", re.S)


# ------------------------------------------------------------------------------------------------ worlds
_BLOCKS = {}


def blob(size, salt):
    block = _BLOCKS.get(salt % 16)
    if block is None:
        block = _BLOCKS[salt % 16] = bytes((salt % 16 * 7 + i * 13) % 251 for i in range(4096))
    return (block * (size // 4096 + 1))[:size]


def write_file(path, size, salt):
    os.makedirs(os.path.dirname(path), exist_ok=True)
    with open(path, "wb") as f:
        f.write(blob(size, salt))


def truth_of(root):
    """{rel: (kind, size, mtime_ns, link mtime_ns)} for everything below root outside ascmhl folders"""
    out = {}
    for dp, dns, fns in os.walk(root):
        if "ascmhl" in dns:
            dns.remove("ascmhl")
        for n in dns + fns:
            p = os.path.join(dp, n)
            rel = os.path.relpath(p, root)
            try:
                st, lst = os.stat(p), os.lstat(p)
            except OSError:
                continue
            kind = "d" if stat.S_ISDIR(st.st_mode) else "f"
            out[rel] = (kind, st.st_size, st.st_mtime_ns, lst.st_mtime_ns, stat.S_ISLNK(lst.st_mode))
    return out


DIRS = ["", "sub dir", "\u00dcbung", S.NFD, "a&b<c>'d", "L1/L2/L3", "L1", "Clips", "Clips_proxy", "line\u2028sep"]
SIZES = [0, 1, 2, 255, 4096, 65537, M - 1, M, M + 1, 0, 3, 1000, 12345, 0, 70000, 17]


class Ctx:
    def __init__(self, run, cid, zone):
        self.run, self.cid, self.zone = run, cid, zone
        self.checked = {"size": 0, "lastmod": 0, "dirmod": 0, "hashdate": 0, "creationdate": 0, "filename": 0, "empty": 0}
        self.seen = {}

    def bad(self, what, wclass, inp=None):
        k = self.seen.get(wclass, 0)
        self.seen[wclass] = k + 1
        if k < 3:
            d = {"zone": self.zone.zid, "TZ": self.zone.tz}
            d.update(inp or {})
            self.run.violation(self.cid, f"[TZ={self.zone.tz}] " + what, wclass, inp=d)


def check_date(ctx, text, where, kind, lo_us=None, hi_us=None, exact_ns=None, allowed_us=None, also_ns=None):
    """one written date: well-formed, denotes the expected instant, carries the offset of the zone at that instant"""
    p = parse_iso(text)
    if p is None:
        ctx.bad(f"{where}: {kind} {text!r} is not a well-formed ISO-8601 date-time with UTC offset", f"{kind}/malformed")
        return
    us, off, frac = p
    if exact_ns is not None:
        cands = [exact_ns] + ([also_ns] if also_ns is not None else [])
        ok = False
        for ns in cands:
            diff = us * 1000 - ns
            if abs(diff) < 10**9 and (ns % 10**9 != 0 or diff == 0):
                ok = True
        if not ok:
            want = exact_ns // 1000
            ctx.bad(
                f"{where}: {kind} {text!r} denotes epoch second {us / 1e6:.6f}, the file's modification time is {exact_ns / 1e9:.9f} "
                f"(expected {show(want, ctx.zone.offset(want // 1000000))})",
                f"{kind}/instant",
                {"written": text, "mtime_ns": exact_ns},
            )
    elif allowed_us is not None:
        # a copied hash date (flatten): the instant must be one recorded for this entry; the offset may be the one it
        # was recorded with (checked when that generation was written) or the present zone's offset at that instant
        if us not in {a for a, _ in allowed_us}:
            ctx.bad(
                f"{where}: {kind} {text!r} denotes none of the instants recorded for this entry in the history ({sorted(allowed_us)[:3]})",
                f"{kind}/instant",
                {"written": text},
            )
        elif (us, off) in allowed_us:
            ctx.checked["hashdate"] += 1
            return us
    else:
        if not (lo_us <= us <= hi_us):
            ctx.bad(
                f"{where}: {kind} {text!r} denotes epoch second {us / 1e6:.6f}, but the command ran in [{lo_us / 1e6:.3f}, {hi_us / 1e6:.3f}] "
                f"(expected about {show(lo_us, ctx.zone.offset(lo_us // 1000000))})",
                f"{kind}/instant",
                {"written": text},
            )
    want_off = ctx.zone.offset(us // 1000000)
    if off != want_off:
        # the libc guard: only instants on which libc agrees with the calculator are decidable
        try:
            decidable = time.localtime(us // 1000000).tm_gmtoff == want_off
        except (OverflowError, OSError, ValueError):
            decidable = False
        if decidable:
            ctx.bad(
                f"{where}: {kind} {text!r} carries offset {off:+d} s, the zone's offset at that instant is {want_off:+d} s (the written instant reads {show(us, want_off)} in the zone)",
                f"{kind}/offset",
                {"written": text, "expected_offset": want_off},
            )
    ctx.checked[kind if kind in ctx.checked else "hashdate"] += 1
    return us


def check_manifest(ctx, mf, hist, root, truth0, truth1, t0, t1, flat_allowed=None):
    """every size and date written into one new manifest"""
    name = os.path.basename(mf)
    lo_us, hi_us = int(t0) * 1000000, int(t1 * 1000000) + 20000
    m = FILENAME.match(name)
    if not m:
        ctx.bad(f"manifest file name {name!r} does not end in _YYYY-MM-DD_HHMMSSZ.mhl", "filename/form")
    else:
        f = [int(x) for x in m.groups()]
        valid = 1 <= f[1] <= 12 and 1 <= f[2] <= calendar.monthrange(f[0], f[1])[1] and f[3] < 24 and f[4] < 60 and f[5] < 60
        inst = calendar.timegm(tuple(f)) if valid else None
        if inst is None or not (int(t0) <= inst <= int(t1)):
            g0, g1 = time.gmtime(int(t0)), time.gmtime(int(t1))
            ctx.bad(
                f"manifest file name {name!r} does not carry the UTC time of the run ({time.strftime('%Y-%m-%d_%H%M%SZ', g0)} .. {time.strftime('%Y-%m-%d_%H%M%SZ', g1)})",
                "filename/utc",
                {"name": name},
            )
        ctx.checked["filename"] += 1
    try:
        doc = ET.parse(mf).getroot()
    except ET.ParseError as e:
        ctx.bad(f"{name}: not parseable ({e})", "manifest/unreadable")
        return
    ci = doc.find(NS + "creatorinfo")
    cd = ci.findtext(NS + "creationdate") if ci is not None else None
    if cd is None:
        ctx.bad(f"{name}: no creationdate", "creationdate/malformed")
    else:
        check_date(ctx, cd.strip(), name, "creationdate", lo_us, hi_us)
    hashes = doc.find(NS + "hashes")
    in_records = set()
    for rec in hashes if hashes is not None else []:
        tag = rec.tag.replace(NS, "")
        pe = rec.find(NS + "path")
        if pe is None or tag not in ("hash", "directoryhash"):
            continue
        for el in rec.iter():
            in_records.add(el)
        rp = pe.text or ""
        rel = os.path.normpath(os.path.join(hist, rp)) if hist else os.path.normpath(rp)
        where = f"{name}: {rp!r}"
        # hash dates of this record
        for el in rec.iter():
            hd = el.get("hashdate")
            if hd is None:
                continue
            fmt = el.tag.replace(NS, "")
            if flat_allowed is not None:
                check_date(ctx, hd, f"{where} {fmt}", "hashdate", allowed_us=flat_allowed.get((rel, fmt), set()))
            else:
                check_date(ctx, hd, f"{where} {fmt}", "hashdate", lo_us, hi_us)
        tr = truth0.get(rel)
        if tr is None or truth1.get(rel) != tr:
            continue  # not an entry of this world, or it changed while the command ran: nothing to compare with
        kind, size, mt, lmt, islink = tr
        if (tag == "directoryhash") != (kind == "d"):
            continue
        lm = pe.get("lastmodificationdate")
        if kind == "f":
            sz = pe.get("size")
            if sz is None:
                ctx.bad(f"{where}: no size attribute, the file has {size} bytes", "size/missing", {"path": rel, "size": size})
            elif sz != str(size):
                ctx.bad(f"{where}: size attribute {sz!r}, the file has {size} bytes", "size/wrong", {"path": rel, "size": size})
            ctx.checked["size"] += 1
            if size == 0:
                ctx.checked["empty"] += 1
            if lm is not None:
                check_date(ctx, lm, where, "lastmod", exact_ns=mt, also_ns=lmt if islink else None)
        else:
            if lm is not None:
                check_date(ctx, lm, where + " (directory)", "dirmod", exact_ns=mt)
    # hash dates outside the records (root hash)
    if flat_allowed is None:
        for el in doc.iter():
            if el in in_records:
                continue
            hd = el.get("hashdate")
            if hd is not None:
                check_date(ctx, hd, f"{name}: root hash {el.tag.replace(NS, '')}", "hashdate", lo_us, hi_us)


def command(ctx, root, name, args, cwd=None, ok_codes=(0,), dest=None):
    """run one command of the package with the zone active and check everything it wrote"""
    ctx.zone.activate()
    before = S.manifests_by_history(root)
    truth0 = truth_of(root)
    dest_before = set(all_mhl(dest)) if dest else set()
    t0 = time.time()
    code, out, exc = W.run(name, args, cwd=cwd)
    t1 = time.time()
    truth1 = truth_of(root)
    if exc is not None or code not in ok_codes:
        ctx.bad(f"`{name} {' '.join(map(str, args))[-200:]}` exits {code} ({exc!r}): {out[-300:]}", "exit", {"args": [str(a) for a in args]})
        return code, {}
    new = S.new_manifests(root, before)
    for h, files in new.items():
        for mf in files:
            check_manifest(ctx, mf, h, root, truth0, truth1, t0, t1)
    if dest:
        allowed = history_hashdates(root)
        for mf in sorted(set(all_mhl(dest)) - dest_before):
            check_manifest(ctx, mf, "", root, truth0, truth1, t0, t1, flat_allowed=allowed)
            new.setdefault("<flatten>", []).append(mf)
    return code, new


def all_mhl(d):
    out = []
    for dp, _, fns in os.walk(d):
        out += [os.path.join(dp, n) for n in fns if n.endswith(".mhl")]
    return out


def history_hashdates(root):
    """{(root-relative path, format): {(instant in microseconds, offset)}} over every manifest of the outer history"""
    out = {}
    for mf in W.manifests(root):
        doc = ET.parse(mf).getroot()
        hashes = doc.find(NS + "hashes")
        for rec in hashes if hashes is not None else []:
            pe = rec.find(NS + "path")
            if pe is None:
                continue
            for el in rec.iter():
                p = parse_iso(el.get("hashdate"))
                if p:
                    out.setdefault((os.path.normpath(pe.text), el.tag.replace(NS, "")), set()).add((p[0], p[1]))
    return out


def interesting_instants(zone, now, years, rnd):
    """[(label, mtime_ns | None)]: both sides of every switch, inside the repeated hour, seasons, far past / future,
    fractions of a second, and a file that is simply fresh"""
    out = [("fresh", None)]
    secs = []
    for y in years:
        for k, sw in enumerate(zone.switches(y)):
            for d in (-1800, -1, 0, 1800, 3599, -3600):
                secs.append((f"y{y}s{k}{d:+d}", sw + d))
    nowy = time.gmtime(now).tm_year
    secs += [
        ("january", calendar.timegm((nowy, 1, 15, 12, 0, 0))),
        ("july", calendar.timegm((nowy, 7, 15, 12, 0, 0))),
        ("epoch0", 0),
        ("y1960", calendar.timegm((1960, 2, 29, 23, 59, 59))),
        ("y2040", calendar.timegm((2040, 7, 1, 0, 0, 1))),
        ("y2001", 1000000000),
        ("lastyear-dec31", calendar.timegm((nowy - 1, 12, 31, 23, 59, 59))),
        ("random", rnd.randrange(0, 2 * 10**9)),
    ]
    if zone.named or zone.libc:
        secs = [(l, t) for l, t in secs if 86400 * 365 * 6 < t < 2**31 - 1]
    good = set(agreed(zone, [t for _, t in secs]))
    for l, t in secs:
        if t in good:
            out.append((l, t * 10**9))
    # fractions of a second (truncation / rounding must stay within the second)
    base = calendar.timegm((nowy, 3, 3, 3, 3, 3))
    if base in set(agreed(zone, [base, base + 1])):
        out += [("frac999", base * 10**9 + 999999900), ("frac5", base * 10**9 + 500000000), ("frac001", base * 10**9 + 1000)]
    return out


def make_grid_world(root, zone, zi, instants):
    """one file per interesting instant, spread over directories with unusual names, sizes rotated by zone"""
    files, dirs = {}, {}
    for i, (label, mt) in enumerate(instants):
        d = DIRS[i % len(DIRS)]
        rel = os.path.join(d, f"{i:02d}_{label}.bin") if d else f"{i:02d}_{label}.bin"
        size = SIZES[(i + 3 * zi) % len(SIZES)]
        write_file(os.path.join(root, rel), size, i + zi)
        files[rel] = mt
    os.makedirs(os.path.join(root, "E"), exist_ok=True)
    write_file(os.path.join(root, "z", "empty.bin"), 0, 0)
    write_file(os.path.join(root, "z", "0"), 0, 0)
    files[os.path.join("z", "empty.bin")] = instants[(zi + 1) % len(instants)][1]
    os.symlink("L1/one_target.bin", os.path.join(root, "link.bin"))
    write_file(os.path.join(root, "L1", "one_target.bin"), 300 + zi, 5)
    files[os.path.join("L1", "one_target.bin")] = instants[(zi + 2) % len(instants)][1]
    k = zi
    for dp, dns, _ in os.walk(root):
        for n in dns:
            dirs[os.path.relpath(os.path.join(dp, n), root)] = instants[k % len(instants)][1]
            k += 1
    return files, dirs


def apply_mtimes(root, files, dirs):
    for rel, mt in files.items():
        if mt is not None:
            try:
                os.utime(os.path.join(root, rel), ns=(mt, mt))
            except OSError:
                pass  # a file system that cannot store this time: the oracle reads the time back with stat anyway
    for rel in sorted(dirs, key=lambda r: -r.count(os.sep)):
        if dirs[rel] is not None and os.path.isdir(os.path.join(root, rel)):
            try:
                os.utime(os.path.join(root, rel), ns=(dirs[rel], dirs[rel]))
            except OSError:
                pass


def finish_case(run, ctx, key, extra=None):
    s = {"case": ctx.cid, "TZ": ctx.zone.tz, "checked": dict(ctx.checked)}
    if extra:
        s.update(extra)
    nontrivial = ctx.checked["size"] + ctx.checked["lastmod"] + ctx.checked["hashdate"] > 0
    run.case(ctx.cid, key if nontrivial else None, sample=s)


# ------------------------------------------------------------------------------------------------ main
def main():
    run = Run(
        "C16",
        rule="case = (family, time zone, command variant); grid: one file per (switch of the zone x {-3600,-1800,-1,0,+1800,+3599} s, "
        "season, 1960/1970/2001/2040, sub-second fraction, fresh) with sizes rotated over {0,1,2,255,4096,65537,1MiB-1,1MiB,1MiB+1,...}; "
        "now: zone synthesised so that its switch lies -/+ 20 min, 1 day, 40 days from the real clock; gens: 6-12 generations of one "
        "history, a different zone per generation, mtime-only / size-only edits in between; flatten; sizes. non-trivial = distinct "
        "(family, zone, variant) in which at least one size, modification date or hash date was compared with the oracle",
        bound="16 zones quick / 26 thorough (UTC, fixed +5:30 -9:30 +14 -12 (+5:45), DST north/south with 60, 30, 120 minute and negative "
        "saving, switch at 24:00, tz-database names, TZ unset); switches of the current year (quick) plus 1999 and 2039 (thorough); "
        "sizes 0 .. 2 MiB+1 and 48 MiB+1 sparse (quick) / 4 GiB+1 sparse (thorough); <= 12 generations; <= 3 nested histories; "
        "8 command variants (folder, -n, -sf absolute+relative+repeated, root as '.', relative, trailing slash, nested, repeated -h), flatten",
    )
    saved_tz = os.environ.get("TZ")
    now = time.time()
    nowy = time.gmtime(now).tm_year
    thorough = run.tier == "thorough"
    zones = static_zones(run.tier)
    fsets = S.format_sets(run.tier)
    variants = ["folder", "nodirhash", "sf", "dot", "rel", "slash", "nested", "twice"]
    counter = [0]

    def fresh_dir():
        counter[0] += 1
        return os.path.join(run.tmp, f"w{counter[0]}")

    try:
        # ---------------------------------------------------------------- family 1: zone x mtime x size grid
        for zi, zone in enumerate(zones):
            vs = variants if thorough else ["folder", variants[1 + zi % (len(variants) - 1)]]
            todo = []
            for vi, variant in enumerate(vs):
                for fmts in [fsets[(zi + vi) % len(fsets)]] + ([fsets[(zi + vi + 3) % len(fsets)]] if thorough and variant == "folder" else []):
                    cid = f"grid/{zone.zid}/{variant}/{'+'.join(fmts)}"
                    if run.want(cid):
                        todo.append((cid, variant, fmts))
            if not todo:
                continue
            # one world per zone; between variants every ascmhl folder is removed again (so each variant seals a fresh tree)
            zone.activate()
            years = [nowy] + ([1999, 2039] if thorough and not (zone.named or zone.libc) else []) + ([2005] if thorough and zone.named else [])
            instants = interesting_instants(zone, now, years, random.Random(f"{run.seed}/{zone.zid}"))
            tmp = fresh_dir()
            root = os.path.join(tmp, "t")
            files, dirs = make_grid_world(root, zone, zi, instants)
            for cid, variant, fmts in todo:
                ctx = Ctx(run, cid, zone)
                for dp, dns, _ in os.walk(root):
                    if "ascmhl" in dns:
                        dns.remove("ascmhl")
                        shutil.rmtree(os.path.join(dp, "ascmhl"))
                h = S.hargs(fmts)
                if variant == "nested":
                    for nr in ["L1/L2/L3", "sub dir", "L1"]:
                        apply_mtimes(root, files, dirs)
                        command(ctx, os.path.join(root, nr), "create", [os.path.join(root, nr)] + h)
                apply_mtimes(root, files, dirs)
                if variant == "folder":
                    command(ctx, root, "create", [root] + h)
                elif variant == "nodirhash":
                    command(ctx, root, "create", [root, "-n"] + h)
                elif variant == "twice":
                    command(ctx, root, "create", [root] + h + h)
                elif variant == "dot":
                    command(ctx, root, "create", ["."] + h, cwd=root)
                elif variant == "rel":
                    command(ctx, root, "create", ["t"] + h, cwd=tmp)
                elif variant == "slash":
                    command(ctx, root, "create", [root + os.sep] + h)
                elif variant == "nested":
                    command(ctx, root, "create", [root] + h)
                elif variant == "sf":
                    sel = sorted(files)[:: max(1, len(files) // 9)] + [os.path.join("z", "empty.bin"), os.path.join("z", "0"), os.path.join("z", "empty.bin")]
                    args = [root] + h
                    for sf in sel:
                        args += ["-sf", os.path.join(root, sf)]
                    command(ctx, root, "create", args)
                    # relative option paths, cwd different from the root
                    args = ["t"] + h
                    for sf in sel[:3] + ["L1"]:
                        args += ["-sf", os.path.join("t", sf)]
                    command(ctx, root, "create", args, cwd=tmp)
                finish_case(run, ctx, ("grid", zone.zid, variant, tuple(fmts)), {"files": len(files)})

        # ---------------------------------------------------------------- family 2: the real 'now' around a switch
        deltas = [-1200, 1200, -DAY, DAY] + ([-40 * DAY, 40 * DAY, -3000, 3000] if thorough else [])
        bases = [(3600, 3600), (-12600, 3600), (37800, 1800), (-18000, 7200)]
        nk = 0
        for kind in ("back", "fwd"):
            for di, delta in enumerate(deltas):
                for std, save in bases if thorough else [bases[di % 2]]:
                    nk += 1
                    cid = f"now/{kind}/{delta:+d}/{std:+d}{save:+d}"
                    if not run.want(cid):
                        continue
                    t_now = time.time()
                    zone = synthetic_zone(f"synthetic-{kind}{delta:+d}/{std:+d}", t_now, delta, kind, std, save)
                    ctx = Ctx(run, cid, zone)
                    zone.activate()
                    sw = zone.sw
                    cand = [sw - 60 * DAY, sw - 3600, sw - 1800, sw - 1, sw, sw + 1800, sw + 3599, sw + 60 * DAY, int(t_now) - 5]
                    probe = agreed(zone, cand + [int(t_now), int(t_now) + 30])
                    if int(t_now) not in probe or int(t_now) + 30 not in probe:
                        sys.stderr.write(f"c16: case {cid} skipped (zone {zone.tz} not decidable at the present time)\n")
                        continue
                    tmp = fresh_dir()
                    root = os.path.join(tmp, "t")
                    files = {}
                    for i, t in enumerate(c for c in cand if c in probe):
                        rel = os.path.join(DIRS[i % 4], f"{i}_{t - sw:+d}.bin")
                        write_file(os.path.join(root, rel), SIZES[(i + nk) % len(SIZES)], i)
                        files[rel] = t * 10**9
                    write_file(os.path.join(root, "fresh", "e"), 0, 0)
                    files[os.path.join("fresh", "e")] = None
                    apply_mtimes(root, files, {})
                    fm = fsets[nk % len(fsets)]
                    command(ctx, root, "create", [root] + S.hargs(fm))
                    # second generation in the same situation: every entry is verified now, dates are new
                    os.utime(os.path.join(root, sorted(files)[0]), ns=((sw + 1800) * 10**9, (sw + 1800) * 10**9))
                    command(ctx, root, "create", [root] + S.hargs(fm))
                    dest = os.path.join(tmp, "dest")
                    os.makedirs(dest)
                    command(ctx, root, "flatten", [root, dest], dest=dest)
                    finish_case(run, ctx, ("now", kind, delta, std, save), {"switch": sw, "now": t_now})

        # ---------------------------------------------------------------- family 3: generations, one zone each
        by_id = {z.zid: z for z in zones}
        seqs = [
            ["berlin", "newyork", "sydney", "utc", "newfoundland", "lordhowe"],
            ["sydney", "marquesas", "berlin", "kiritimati", "chatham", "india", "utc", "newyork", "bakerisland", "lordhowe", "berlin", "santiago"],
        ]
        if thorough:
            seqs += [[z.zid for z in zones][k:] + [z.zid for z in zones][:k] for k in (0, 5, 11)]
            seqs = [s[:12] for s in seqs]
        for si, seq in enumerate(seqs):
            cid = f"gens/{si}/{'-'.join(seq)}"
            if not run.want(cid):
                continue
            zs = [by_id[z] for z in seq if z in by_id]
            tmp = fresh_dir()
            root = os.path.join(tmp, "t")
            ctx = Ctx(run, cid, zs[0])
            zs[0].activate()
            sws = zs[0].switches(nowy) or [calendar.timegm((nowy, 5, 5, 5, 5, 5))]
            inst = agreed(zs[0], [sws[0] - 1800, sws[0] + 1800, sws[-1] - 1800, sws[-1] + 1800, sws[-1] - 1, sws[-1]])
            files = {}
            for i, t in enumerate(inst):
                rel = os.path.join(DIRS[i % 5], f"g{i}.bin")
                write_file(os.path.join(root, rel), SIZES[(i + si) % 6], i)
                files[rel] = t * 10**9
            for n, sz in (("grow.bin", 5), ("shrink.bin", 9), ("same.bin", 0), ("sub dir/keep.bin", M)):
                write_file(os.path.join(root, n), sz, 3)
                files[n] = (inst[0] if inst else 10**9) * 10**9
            write_file(os.path.join(root, "nest", "inner.bin"), 0, 1)
            write_file(os.path.join(root, "nest", "other.bin"), 7, 1)
            apply_mtimes(root, files, {})
            command(ctx, os.path.join(root, "nest"), "create", [os.path.join(root, "nest"), "-h", "md5"])
            ok = (0,)
            for gi, z in enumerate(zs):
                ctx.zone = z
                z.activate()
                zsw = z.switches(nowy)
                flip = agreed(z, [s + d for s in zsw for d in (-1800, 1800)] or [calendar.timegm((nowy, 1, 1, 0, 0, 0)) + gi])
                args = [root, "-h", "md5"]
                if gi == 1:
                    # content and size kept, only the modification time moves to the other side of a switch
                    for k, rel in enumerate(sorted(files)):
                        if flip:
                            t = flip[(k + gi) % len(flip)] * 10**9
                            os.utime(os.path.join(root, rel), ns=(t, t))
                elif gi == 2:
                    # size changes, modification time kept
                    for n, data in (("grow.bin", blob(5, 3) + b"tail"), ("shrink.bin", b""), ("nest/other.bin", blob(7, 1) * 3)):
                        p = os.path.join(root, n)
                        st = os.stat(p)
                        with open(p, "wb") as f:
                            f.write(data)
                        os.utime(p, ns=(st.st_atime_ns, st.st_mtime_ns))
                    ok = (0, 11, 12)
                elif gi == 3:
                    write_file(os.path.join(root, "late", "empty.new"), 0, 0)
                    write_file(os.path.join(root, "late", "one.new"), 1, 0)
                    args = [root, "-h", "sha1"]
                elif gi == 4:
                    args = [root, "-h", "md5", "-sf", os.path.join(root, "late", "empty.new"), "-sf", os.path.join(root, "grow.bin"), "-sf", os.path.join(root, "nest", "inner.bin")]
                elif gi == 5:
                    args = [root, "-n", "-h", "xxh64", "-h", "md5"]
                elif flip:
                    t = flip[gi % len(flip)] * 10**9
                    os.utime(os.path.join(root, "same.bin"), ns=(t, t))
                command(ctx, root, "create", args, ok_codes=ok)
            ctx.zone = zs[-1]
            dest = os.path.join(tmp, "dest")
            os.makedirs(dest)
            # flatten reports the first record of a path: compare only entries whose size never changed
            for n in ("grow.bin", "shrink.bin"):
                os.remove(os.path.join(root, n))
            command(ctx, root, "flatten", [root, dest], dest=dest)
            finish_case(run, ctx, ("gens", si, len(zs)), {"generations": len(zs)})

        # ---------------------------------------------------------------- family 4: sizes
        size_cases = [
            ("all-empty", {"a": 0, "d/b": 0, "d/e/c": 0, "n/x": 0}, ["n"], ["md5", "c4"]),
            ("single-empty", {"only": 0}, [], ["xxh64"]),
            ("empty-tree", {}, [], ["md5"]),
            ("only-empty-dirs", {"E/": 0, "F/G/": 0}, [], ["c4"]),
            ("mib", {"m-1": M - 1, "m": M, "m+1": M + 1, "2m": 2 * M, "2m+1": 2 * M + 1, "zero": 0}, [], ["xxh64", "md5"]),
            ("small", {f"s{n}": n for n in (0, 1, 2, 3, 9, 10, 11, 99, 100, 101, 999, 1000, 1001, 65535, 65536)}, [], ["md5"]),
            ("random", {f"r{k}": random.Random(f"{run.seed}/size{k}").randrange(0, 300000) for k in range(8)}, [], ["sha1"]),
        ]
        if thorough:
            size_cases.append(("sparse", {"g4": (1 << 32) + 1, "g2": (1 << 31), "zero": 0}, [], ["xxh64"]))
        else:
            size_cases.append(("sparse", {"m48": 48 * M + 1, "zero": 0}, [], ["xxh64"]))
        for zi, (sname, spec, nested, fm) in enumerate(size_cases):
            zone = zones[(3 + 2 * zi) % len(zones)]
            cid = f"size/{sname}/{zone.zid}"
            if not run.want(cid):
                continue
            ctx = Ctx(run, cid, zone)
            zone.activate()
            tmp = fresh_dir()
            root = os.path.join(tmp, "t")
            os.makedirs(root, exist_ok=True)
            for rel, sz in spec.items():
                p = os.path.join(root, rel)
                os.makedirs(p if rel.endswith("/") else os.path.dirname(p), exist_ok=True)
                if rel.endswith("/"):
                    continue
                if sz > 4 * M:
                    with open(p, "wb") as f:
                        f.truncate(sz)
                else:
                    write_file(p, sz, zi)
            for nr in nested:
                command(ctx, os.path.join(root, nr), "create", [os.path.join(root, nr)] + S.hargs(fm))
            command(ctx, root, "create", [root] + S.hargs(fm))
            if sname in ("all-empty", "small"):
                args = [root] + S.hargs(fm)
                for rel in list(spec)[:4]:
                    args += ["-sf", os.path.join(root, rel)]
                command(ctx, root, "create", args)
                dest = os.path.join(tmp, "dest")
                os.makedirs(dest)
                command(ctx, root, "flatten", [root, dest], dest=dest)
            finish_case(run, ctx, ("size", sname), {"sizes": sorted(spec.values())[:6]})
            shutil.rmtree(tmp, ignore_errors=True)
    finally:
        if saved_tz is None:
            os.environ.pop("TZ", None)
        else:
            os.environ["TZ"] = saved_tz
        time.tzset()
    run.finish()


if __name__ == "__main__":
    main()
