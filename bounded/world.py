"""Small worlds for the bounded stand-ins: tree builder, CLI driver, independent readers and oracles.

Everything here is independent of the code under test except for (a) the click commands that are driven and
(b) pathspec / hashlib / xxhash / lxml, which are in the trusted base.  Manifests are read with xml.etree (not with the
tool's reader), digests and directory hashes are recomputed from the definition in the property statements.
"""
import hashlib
import os
import shutil
import stat
import sys
import xml.etree.ElementTree as ET

import pathspec
import xxhash

from .common import cli

NS = "{urn:ASC:MHL:v2.0}"
NSD = "{urn:ASC:MHL:DIRECTORY:v2.0}"
A58 = "123456789ABCDEFGHJKLMNPQRSTUVWXYZabcdefghijkmnopqrstuvwxyz"
FORMATS = ["md5", "sha1", "xxh128", "xxh3", "xxh64", "c4"]
DEFAULT_IGNORE = [".DS_Store", "ascmhl", "ascmhl/"]


def c4_of_bytes(b):
    v = int.from_bytes(hashlib.sha512(b).digest(), "big")
    s = ""
    while v:
        v, m = divmod(v, 58)
        s = A58[m] + s
    return "c4" + "1" * (88 - len(s)) + s


def c4_decode(t):
    v = 0
    for ch in t[2:]:
        v = v * 58 + A58.index(ch)
    return v.to_bytes(64, "big")


DIGEST = {
    "md5": lambda b: hashlib.md5(b).hexdigest(),
    "sha1": lambda b: hashlib.sha1(b).hexdigest(),
    "xxh32": lambda b: xxhash.xxh32(b).hexdigest(),
    "xxh64": lambda b: xxhash.xxh64(b).hexdigest(),
    "xxh3": lambda b: xxhash.xxh3_64(b).hexdigest(),
    "xxh128": lambda b: xxhash.xxh3_128(b).hexdigest(),
    "c4": c4_of_bytes,
}


def decode(fmt, text):
    return c4_decode(text) if fmt == "c4" else bytes.fromhex(text)


# ------------------------------------------------------------------------------------------------ trees
def build(root, spec):
    """spec: {relative path: content}; a key ending in '/' is an (empty) directory; content bytes or str;
    a value ('link', target) creates a symlink"""
    os.makedirs(root, exist_ok=True)
    for rel, content in spec.items():
        p = os.path.join(root, rel)
        if rel.endswith("/"):
            os.makedirs(p, exist_ok=True)
            continue
        os.makedirs(os.path.dirname(p), exist_ok=True)
        if isinstance(content, tuple) and content[0] == "link":
            os.symlink(content[1], p)
            continue
        if isinstance(content, str):
            content = content.encode("utf-8")
        with open(p, "wb") as f:
            f.write(content)
    return root


def listing(root, skip_ascmhl=False):
    """{relative path: ('d',) | ('f', bytes) | ('l', target)} of everything below root"""
    out = {}
    for dp, dns, fns in os.walk(root):
        for n in list(dns):
            p = os.path.join(dp, n)
            rel = os.path.relpath(p, root)
            if os.path.islink(p):
                out[rel] = ("l", os.readlink(p))
                continue
            if skip_ascmhl and n == "ascmhl":
                dns.remove(n)
                continue
            out[rel] = ("d",)
        for n in fns:
            p = os.path.join(dp, n)
            rel = os.path.relpath(p, root)
            if os.path.islink(p):
                out[rel] = ("l", os.readlink(p))
            else:
                with open(p, "rb") as f:
                    out[rel] = ("f", f.read())
    return out


def snapshot(root):
    """full state for 'touches nothing' comparisons: type, bytes, mtime_ns, mode, for every entry incl. root"""
    out = {}
    st = os.lstat(root)
    out["."] = ("d", None, st.st_mtime_ns, stat.S_IMODE(st.st_mode))
    for dp, dns, fns in os.walk(root):
        for n in dns + fns:
            p = os.path.join(dp, n)
            rel = os.path.relpath(p, root)
            st = os.lstat(p)
            if stat.S_ISLNK(st.st_mode):
                out[rel] = ("l", os.readlink(p), st.st_mtime_ns, 0)
            elif stat.S_ISDIR(st.st_mode):
                out[rel] = ("d", None, st.st_mtime_ns, stat.S_IMODE(st.st_mode))
            else:
                with open(p, "rb") as f:
                    out[rel] = ("f", f.read(), st.st_mtime_ns, stat.S_IMODE(st.st_mode))
    return out


def diff_snap(a, b):
    ch = []
    for k in sorted(set(a) | set(b)):
        if k not in a:
            ch.append(("added", k))
        elif k not in b:
            ch.append(("removed", k))
        elif a[k] != b[k]:
            what = "content" if a[k][:2] != b[k][:2] else ("mtime" if a[k][2] != b[k][2] else "mode")
            ch.append((what, k))
    return ch


# ------------------------------------------------------------------------------------------------ CLI
def run(name, args, cwd=None):
    from ascmhl import commands

    cmd = {
        "create": commands.create,
        "verify": commands.verify,
        "diff": commands.diff,
        "info": commands.info,
        "flatten": commands.flatten,
        "hash": commands.hash,
        "xsd": commands.xsd_schema_check,
    }[name]
    code, out, exc = cli(cmd, [str(a) for a in args], cwd=cwd)
    return code, out, exc


# ------------------------------------------------------------------------------------------------ independent readers
def manifests(root):
    d = os.path.join(root, "ascmhl")
    if not os.path.isdir(d):
        return []
    return sorted(os.path.join(d, n) for n in os.listdir(d) if n.endswith(".mhl"))


def chain_path(root):
    return os.path.join(root, "ascmhl", "ascmhl_chain.xml")


def read_chain(path):
    t = ET.parse(path).getroot()
    out = []
    for hl in t.findall(NSD + "hashlist"):
        out.append((hl.get("sequencenr"), hl.findtext(NSD + "path"), hl.findtext(NSD + "c4")))
    return out


def read_manifest(path):
    t = ET.parse(path).getroot()
    m = {"file": path, "records": [], "references": [], "ignore": None, "roothash": None}
    ci = t.find(NS + "creatorinfo")
    m["creator"] = {
        "creationdate": ci.findtext(NS + "creationdate"),
        "hostname": ci.findtext(NS + "hostname"),
        "tool": (ci.find(NS + "tool").text, ci.find(NS + "tool").get("version")),
        "location": ci.findtext(NS + "location"),
        "comment": ci.findtext(NS + "comment"),
        "authors": [
            {"name": a.text, "email": a.get("email"), "phone": a.get("phone"), "role": a.get("role")} for a in ci.findall(NS + "author")
        ],
    }
    pi = t.find(NS + "processinfo")
    m["process"] = pi.findtext(NS + "process")
    ig = pi.find(NS + "ignore")
    if ig is not None:
        m["ignore"] = [p.text for p in ig.findall(NS + "pattern")]
    rh = pi.find(NS + "roothash")
    if rh is not None:
        m["roothash"] = _dirhash_entries(rh)
    hs = t.find(NS + "hashes")
    if hs is not None:
        for h in hs:
            tag = h.tag.replace(NS, "")
            pe = h.find(NS + "path")
            rec = {
                "path": pe.text,
                "size": pe.get("size"),
                "lastmodificationdate": pe.get("lastmodificationdate"),
                "is_dir": tag == "directoryhash",
                "previous": h.findtext(NS + "previousPath"),
                "entries": [],
            }
            if tag == "directoryhash":
                rec["entries"] = _dirhash_entries(h)
            else:
                for c in h:
                    ct = c.tag.replace(NS, "")
                    if ct in FORMATS:
                        rec["entries"].append({"format": ct, "digest": c.text, "action": c.get("action"), "hashdate": c.get("hashdate")})
            m["records"].append(rec)
    rf = t.find(NS + "references")
    if rf is not None:
        for r in rf.findall(NS + "hashlistreference"):
            m["references"].append((r.findtext(NS + "path"), r.findtext(NS + "c4")))
    return m


def _dirhash_entries(el):
    out = []
    c, s = el.find(NS + "content"), el.find(NS + "structure")
    smap = {x.tag.replace(NS, ""): x.text for x in (s if s is not None else [])}
    for x in c if c is not None else []:
        f = x.tag.replace(NS, "")
        out.append({"format": f, "digest": x.text, "structure": smap.get(f), "action": x.get("action"), "hashdate": x.get("hashdate")})
    return out


# ------------------------------------------------------------------------------------------------ oracles
def spec_of(patterns):
    return pathspec.PathSpec.from_lines("gitwildmatch", patterns)


def ignored(rel, spec):
    """a path is excluded iff it or one of its ancestors matches (relative to the traversed root)"""
    parts = rel.split(os.sep)
    for k in range(1, len(parts) + 1):
        if spec.match_file(os.sep.join(parts[:k])):
            return True
    return False


def visible_tree(root, patterns, follow_links=False):
    """{rel: 'd' | 'f'} of the entries a folder-mode traversal should see (symlinked directories are listed but not
    descended into, as the statement's trees contain no symlinks this only matters for robustness)"""
    spec = spec_of(patterns)
    out = {}

    def go(d, rel):
        for n in sorted(os.listdir(d)):
            r = n if rel == "" else rel + os.sep + n
            if ignored(r, spec):
                continue
            p = os.path.join(d, n)
            if os.path.isdir(p):
                out[r] = "d"
                if not os.path.islink(p):
                    go(p, r)
            else:
                out[r] = "f"

    go(root, "")
    return out


def nested_roots(root):
    """relative paths (below root, excluding root) of directories that hold an ascmhl folder, none below another's
    ascmhl folder"""
    out = []
    for dp, dns, _ in os.walk(root):
        dns.sort()
        if "ascmhl" in dns:
            dns.remove("ascmhl")
            if dp != root:
                out.append(os.path.relpath(dp, root))
    return out


def owner_of(rel, roots):
    """deepest nested root that contains rel (component-wise), '' for the outer root"""
    best = ""
    for r in roots:
        if rel == r or rel.startswith(r + os.sep):
            if len(r) > len(best):
                best = r
    return best


def dir_hashes(root, patterns, fmt):
    """{rel dir ('.' for root): (content hash, structure hash)} by the definition of C07 over the non-ignored entries"""
    spec = spec_of(patterns)
    res = {}

    def go(d, rel):
        content, structure = [], []
        for n in sorted(os.listdir(d)):
            r = n if rel == "" else rel + os.sep + n
            if ignored(r, spec):
                continue
            p = os.path.join(d, n)
            nb = n.encode("utf8")
            if os.path.isdir(p) and not os.path.islink(p):
                c, s = go(p, r)
                content.append(c)
                structure.append(DIGEST[fmt](nb + decode(fmt, s)))
            elif os.path.isdir(p):
                continue
            else:
                with open(p, "rb") as f:
                    h = DIGEST[fmt](f.read())
                content.append(h)
                structure.append(DIGEST[fmt](nb + decode(fmt, h)))
        ch = DIGEST[fmt](b"".join(decode(fmt, x) for x in sorted(content)))
        sh = DIGEST[fmt](b"".join(decode(fmt, x) for x in sorted(structure)))
        res[rel or "."] = (ch, sh)
        return ch, sh

    go(root, "")
    return res


def file_digest(path, fmt):
    with open(path, "rb") as f:
        return DIGEST[fmt](f.read())


def xsd_validate(path, kind="manifest"):
    from lxml import etree

    repo = os.environ.get("VERIF_REPO", "/repo")
    xsd = os.path.join(repo, "xsd", "ASCMHL.xsd" if kind == "manifest" else "ASCMHLDirectory__combined.xsd")
    schema = etree.XMLSchema(etree.parse(xsd))
    doc = etree.parse(path)
    ok = schema.validate(doc)
    return ok, str(schema.error_log)[:500]
