"""C12 bounded part: ignore patterns exclude consistently and only ever accumulate.

Drives create / create -sf / verify / verify -dh / diff of the real package on small worlds and compares with an oracle that
is derived from the statement alone (pathspec is the trusted matcher, see world.ignored):

* exclusion  - a path matched by the effective patterns (latest generation of the history the command is run on + -i + -ii)
               has no record in any new manifest, is not opened for reading (audit hook), does not enter any directory hash
               (recomputed independently), is reported neither as new nor as missing nor as altered; everything that is
               not matched still is recorded / reported (so the exclusion is exactly the matched set);
* accumulate - the <ignore> list of every new manifest (root and nested histories, also -n, -sf and failed generations) has
               the previous generation's list as an ordered subsequence, no duplicates, and is as a set exactly
               previous (or the defaults) + the effective patterns of the run.

Paths for which "matched" is not decided by the statement (an ancestor is matched but a later negation pattern re-includes
the path itself) are tolerated either way."""
import math
import os
import random
import re
import sys
import traceback

from . import scen as S
from . import world as W
from .common import Run

DEFAULT = list(W.DEFAULT_IGNORE)
NFC = "Caf\u00e9"
NFD = "Cafe\u0301"
M = 1 << 20

TREES = {
    "media": {
        "Clips/x.mov": "cx",
        "Clips/sub/z.mov": "cz",
        "Clips/x.tmp": "ct",
        "Clips_proxy/y.mov": "py",
        "Clips_proxy/x.mov": "px",
        "Clips.txt": "t",
        "Audio/a.wav": "aw",
        "Audio/tmp/s.wav": "sw",
        "Audio/.DS_Store": "junk",
        "tmp/scratch.bin": "sc",
        "notes.txt": "n",
        "x.mov": "rx",
        "Empty/": "",
        "zero.bin": b"",
        ".DS_Store": "junk",
    },
    "deep": dict(S.TREES["deep"]),
    "levels": dict(S.TREES["levels"]),
    "prefix": dict(S.TREES["prefix"]),
    "names": {
        "sp ace/fi le.txt": "1",
        "sp ace/keep.txt": "k",
        "\u00dcbung/\u00e9.txt": "2",
        NFC + "/n.txt": "3",
        NFD + "/d.txt": "4",
        "a&b<c>'d.txt": "5",
        'q"uote.txt': "6",
        "line\u2028sep.txt": "7",
        "plain.txt": "8",
    },
    "case": dict(S.TREES["case"]),
    "lookalike": dict(S.TREES["lookalike"]),
    "emptyfolder": {},
    "onlydirs": dict(S.TREES["onlydirs"]),
    "links": {
        "real/a.bin": "a",
        "real/b.txt": "b",
        "c.txt": "c",
        "lnkdir": ("link", "real"),
        "alias.lnk": ("link", "c.txt"),
        "dangling.lnk": ("link", "nowhere"),
    },
    "sizes": {"big/below.bin": b"\x01" * (M - 1), "big/at.tmp": b"\x02" * M, "big/above.bin": b"\x03" * (M + 1), "small.tmp": b""},
}

NESTED = {
    "media": [[], ["Clips"], ["Clips/sub", "Clips"], ["Audio"]],
    "deep": S.NESTED["deep"],
    "levels": S.NESTED["levels"],
    "prefix": S.NESTED["prefix"],
    "names": [[], ["sp ace"], [NFD]],
    "case": S.NESTED["case"],
    "lookalike": S.NESTED["lookalike"],
    "emptyfolder": [[]],
    "onlydirs": [[], ["E"]],
    "links": [[]],
    "sizes": [[]],
}

# pattern sets: base names, globs, directory patterns (trailing slash), anchored patterns and patterns with slashes
PSETS = {
    "media": [
        ["Clips"],
        ["x.mov"],
        ["*.mov"],
        ["Clips*"],
        ["tmp/"],
        ["/tmp"],
        ["Audio/tmp"],
        ["Clips/sub/"],
        ["**/sub"],
        ["*.tmp", "*.wav"],
        ["Empty/"],
        ["Empty"],
        ["zero.bin"],
        ["*"],
        ["Clips/*.mov"],
        ["?.mov"],
        ["[xy].mov", "notes.txt"],
        ["Clips.txt"],
        ["nomatch*.zzz"],
    ],
    "deep": [
        ["*.txt"],
        ["deep"],
        ["A/deep"],
        ["A/deep/"],
        ["/A"],
        ["a.txt", "b.txt"],
        ["E/"],
        ["E"],
        ["z"],
        ["empty.bin"],
        ["A/*"],
        ["**/notes.txt"],
        ["A/**"],
        ["*.bin", "c.txt", "*.bin"],
    ],
    "levels": [["L2"], ["L1/L2/L3"], ["*.bin"], ["clip.bin"], ["L1/*/two.bin"], ["L3/"]],
    "prefix": [["Clips"], ["Clips/"], ["Clips.txt"], ["Clips*"], ["Clips_proxy"], ["*.mov"], ["sub"]],
    "names": [
        ["sp ace"],
        ["fi le.txt"],
        ["\u00dcbung"],
        [NFC],
        [NFD + "/"],
        ["a&b<c>'d.txt"],
        ['q"uote.txt'],
        ["line\u2028sep.txt"],
        ["*\u00e9*"],
        ["sp ace/fi*", "plain.txt"],
    ],
    "case": [["clip.mov"], ["Reel_A"], ["reel_a/"], ["CLIP.MOV", "clip.mov", "reel_a", "Reel_A"]],
    "lookalike": [[], [".DS_Store"], ["my.DS_Store"], ["ascmhl_x"], ["ascmhl", "sub"]],
    "emptyfolder": [[], ["*.txt"]],
    "onlydirs": [["E/"], ["F/G/"], ["G"], ["F/"]],
    "links": [["lnkdir", "*.lnk"]],
    "sizes": [["*.tmp"]],
}

HOWS = ["i", "ii", "long", "mix", "dup", "iilong", "iirel", "split"]
SPELLS = ["abs", "slash", "rel", "dot", "dotrel", "up"]
FMT_RE = "md5|sha1|xxh128|xxh3|xxh64|c4"


# ------------------------------------------------------------------------------------------------ small helpers
def dedup_append(base, new):
    out = list(base)
    for p in new:
        if p not in out:
            out.append(p)
    return out


def status(rel, spec):
    """'ign' = matched (itself, and hence also as a member of an excluded subtree), 'vis' = neither the path nor an
    ancestor is matched, 'amb' = an ancestor is matched but the path itself is re-included by a negation pattern"""
    lo = W.ignored(rel, spec)
    if not lo:
        return "vis"
    return "ign" if spec.match_file(rel) else "amb"


def is_subsequence(small, big):
    it = iter(big)
    return all(any(x == y for y in it) for x in small)


def parent_history(c, roots):
    best = ""
    for r in roots:
        if r != c and c.startswith(r + os.sep) and len(r) > len(best):
            best = r
    return best


def latest_patterns(manifest_files):
    if not manifest_files:
        return None
    return W.read_manifest(sorted(manifest_files)[-1])["ignore"]


def recorded(at):
    """paths (relative to `at`) that have a record in any generation of any history at or below `at`"""
    files, dirs = set(), set()
    for h in [""] + W.nested_roots(at):
        for mf in W.manifests(os.path.join(at, h) if h else at):
            for r in W.read_manifest(mf)["records"]:
                p = os.path.normpath(os.path.join(h, r["path"].replace("/", os.sep)))
                (dirs if r["is_dir"] else files).add(p)
    return files, dirs


_AUD = {"on": False, "log": []}


def _hook(ev, args):
    if ev == "open" and _AUD["on"]:
        try:
            p = args[0]
            if isinstance(p, bytes):
                p = os.fsdecode(p)
            if isinstance(p, str):
                _AUD["log"].append(os.path.abspath(p))
        except Exception:
            pass


sys.addaudithook(_hook)


def arun(name, args, cwd=None):
    """W.run + the list of paths opened while the command ran"""
    _AUD["log"] = []
    _AUD["on"] = True
    try:
        code, out, exc = W.run(name, args, cwd=cwd)
    finally:
        _AUD["on"] = False
    return code, out, exc, list(_AUD["log"])


def parse_report(out):
    lines = out.split("\n")
    new = [l[len("found new file ") :] for l in lines if l.startswith("found new file ")]
    missing = []
    for i, l in enumerate(lines):
        if re.match(r"^ERROR: \d+ missing file\(s\):$", l):
            for l2 in lines[i + 1 :]:
                if not l2.startswith("  "):
                    break
                missing.append(l2[2:])
    mism = []
    for l in lines:
        m = re.match(rf"^ERROR: hash mismatch\s+for (.*) old (?:{FMT_RE}): ", l) or re.match(rf"^ERROR: hash mismatch for\s+(.*)  (?:{FMT_RE}) \(old\): ", l)
        if m:
            mism.append(m.group(1))
    return new, missing, mism


def parse_dirhashes(out):
    got = {}
    for l in out.split("\n"):
        m = re.match(rf"^  calculated directory hash for (.+)  ({FMT_RE}): (\S+) \(content\), (\S+) \(structure\)$", l)
        if m:
            got[(os.path.normpath(m.group(1)), m.group(2))] = (m.group(3), m.group(4))
            continue
        m = re.match(rf"^  calculated root hash  ({FMT_RE}): (\S+) \(content\), (\S+) \(structure\)$", l)
        if m:
            got[(".", m.group(1))] = (m.group(2), m.group(3))
    return got


# ------------------------------------------------------------------------------------------------ the world + oracle
class Ctx:
    """one world: real tree, the independent model of every history's pattern list, and the checked command runners"""

    n = 0
    dhcalls = 0
    last = None

    def __init__(self, run, cid, spec, holder="t"):
        self.run, self.cid = run, cid
        self.tmp = os.path.join(run.tmp, f"w{Ctx.n}")
        Ctx.n += 1
        Ctx.last = self
        self.root = os.path.join(self.tmp, holder)
        W.build(self.root, spec)
        self.model = {}  # absolute history root -> expected pattern list of its latest generation
        self.changed = set()  # absolute paths of files whose bytes differ from what was first recorded
        self.sigs = []  # {absolute dir: (content, structure) md5} of every generation that carries directory hashes
        self.formats = set()
        self.nspec = 0
        self.steps = 0
        self.count = {}

    # -- reporting
    def bad(self, what, wclass, **inp):
        k = wclass
        self.count[k] = self.count.get(k, 0) + 1
        if self.count[k] <= 3:
            self.run.violation(self.cid, what, wclass, inp=inp or None)

    # -- option spelling
    def spelled(self, root, spell):
        if spell == "slash":
            return root + os.sep, None
        if spell == "rel":
            return os.path.basename(root), os.path.dirname(root)
        if spell == "dot":
            return ".", root
        if spell == "dotrel":
            return "." + os.sep + os.path.basename(root) + os.sep, os.path.dirname(root)
        if spell == "up":
            ds = sorted(n for n in os.listdir(root) if n != "ascmhl" and os.path.isdir(os.path.join(root, n)) and not os.path.islink(os.path.join(root, n)))
            if ds:
                return "..", os.path.join(root, ds[0])
        return root, None

    def specfile(self, lines, blank=False, final_nl=True):
        d = os.path.join(self.tmp, "specs")
        os.makedirs(d, exist_ok=True)
        p = os.path.join(d, f"spec {self.nspec}.txt")
        self.nspec += 1
        text = ("\n\n" if blank else "\n").join(lines) + ("\n" if final_nl else "")
        with open(p, "w", encoding="utf-8", newline="\n") as f:
            f.write(text)
        return p

    def deliver(self, pats, how, cwd):
        pats = list(pats)
        if not pats:
            return []
        if how == "long":
            return [x for p in pats for x in ("--ignore", p)]
        if how == "dup":
            return ["-i", pats[0]] + [x for p in pats for x in ("-i", p)] + ["--ignore", pats[0]]
        if how == "ii":
            return ["-ii", self.specfile(pats)]
        if how == "iilong":
            return ["--ignore_spec", self.specfile(pats, blank=True, final_nl=False)]
        if how == "mix":
            return ["-i", pats[0], "-ii", self.specfile([pats[0]] + pats[1:] + [pats[0]])]
        if how == "iirel":
            return ["-ii", os.path.relpath(self.specfile(pats), cwd or os.getcwd())]
        if how == "split":
            k = math.ceil(len(pats) / 2)
            return [x for p in pats[:k] for x in ("-i", p)] + (["-ii", self.specfile(pats[k:])] if pats[k:] else [])
        return [x for p in pats for x in ("-i", p)]

    # -- oracle pieces
    def effective(self, at, pats):
        return dedup_append(self.model.get(at) or DEFAULT, pats)

    def disk(self, at):
        return W.listing(at, skip_ascmhl=True)

    def ambiguous(self, at, spec):
        return [p for p in self.disk(at) if status(p, spec) == "amb"]

    def oracle_report(self, at, eff):
        spec = W.spec_of(eff)
        files, dirs = recorded(at)
        vis = W.visible_tree(at, eff)
        exp_new = {f for f, k in vis.items() if k == "f" and f not in files}
        gone = {p for p in files | dirs if not os.path.lexists(os.path.join(at, p))}
        exp_missing = {p for p in gone if status(p, spec) == "vis"}
        # a recorded path below an excluded folder that a negation pattern re-includes: not decided by the statement
        tol_missing = {p for p in files | dirs if status(p, spec) == "amb"}
        exp_mism = set()
        for a in self.changed:
            rel = os.path.relpath(a, at)
            if not rel.startswith("..") and vis.get(rel) == "f" and rel in files:
                exp_mism.add(rel)
        return exp_new, exp_missing, tol_missing, exp_mism

    def check_opened(self, at, spec, opened, wclass, args, skip=()):
        seen = set(skip)
        for a in opened:
            rel = os.path.relpath(os.path.normpath(a), at)
            if rel.startswith("..") or rel == "." or "ascmhl" in rel.split(os.sep) or rel in seen:
                continue
            seen.add(rel)
            if os.path.lexists(os.path.join(at, rel)) and status(rel, spec) == "ign":
                self.bad(f"ignored path {rel!r} was opened for reading (hashed) although it is matched by the effective patterns", wclass, args=args)

    # -- create (folder mode and -sf)
    def create(self, at, pats=(), how="i", spell="abs", fmts=("md5",), extra=(), sf=None, sf_rel=False, checked=True):
        pats = list(pats)
        eff = self.effective(at, pats)
        spec = W.spec_of(eff)
        hist = [""] + W.nested_roots(at)
        habs = lambda h: os.path.join(at, h) if h else at
        before = {h: W.manifests(habs(h)) for h in hist}
        prev = {h: latest_patterns(before[h]) for h in hist}
        exp_new, exp_missing, tol_missing, exp_mism = self.oracle_report(at, eff) if checked else (set(), set(), set(), set())
        arg, cwd = self.spelled(at, spell)
        args = [arg] + S.hargs(fmts) + list(extra) + self.deliver(pats, how, cwd)
        targets = []
        for t in sf or []:
            ta = os.path.join(at, t)
            targets.append(t)
            args += ["-sf", os.path.relpath(ta, cwd or os.getcwd()) if sf_rel else ta]
        code, out, exc, opened = arun("create", args, cwd)
        self.steps += 1
        wc = "sf" if sf else "create"
        new = {h: [m for m in W.manifests(habs(h)) if m not in before[h]] for h in hist}
        # model of the pattern lists: every history that received a generation holds previous + effective
        expected_list = {h: dedup_append(self.model.get(habs(h)) or DEFAULT, eff) for h in hist}
        for h in hist:
            if new[h]:
                self.model[habs(h)] = expected_list[h]
        self.formats.add(tuple(sorted(set(fmts))))
        if not sf and "-n" not in extra and new[""]:
            self.sigs.append({os.path.normpath(os.path.join(at, d)): cs for d, cs in W.dir_hashes(at, eff, "md5").items()})
        if not checked:
            return code
        if exc is not None:
            self.bad(f"create aborted with {exc!r} (args {args})", f"{wc}/exception", args=args)
            return code
        # ---- accumulation
        for h in hist:
            if len(new[h]) > 1:
                self.bad(f"history '{h or '.'}' received {len(new[h])} manifests in one run", f"{wc}/generation-count", args=args)
            for mf in new[h]:
                got = W.read_manifest(mf)["ignore"]
                name = os.path.join(h, "ascmhl", os.path.basename(mf))
                if got is None:
                    self.bad(f"{name}: no <ignore> element; expected patterns {expected_list[h]}", "accumulate/no-list", args=args)
                    continue
                if len(set(got)) != len(got):
                    self.bad(f"{name}: pattern list {got} contains duplicates", "accumulate/duplicate", args=args)
                if prev[h] is not None and not is_subsequence(prev[h], got):
                    self.bad(f"{name}: pattern list {got} does not contain the previous generation's {prev[h]} in the same order", "accumulate/previous-lost-or-reordered", args=args)
                lost = [p for p in expected_list[h] if p not in got]
                extra_p = [p for p in got if p not in expected_list[h]]
                if lost:
                    kind = "defaults" if set(lost) <= set(DEFAULT) else ("parent" if h else "new")
                    self.bad(f"{name}: pattern list {got} lacks {lost} (previous {prev[h]}, effective patterns of the run {eff})", f"accumulate/{kind}-pattern-missing", args=args)
                if extra_p:
                    self.bad(f"{name}: pattern list {got} holds {extra_p}, neither in the previous generation nor given in this run", "accumulate/foreign-pattern", args=args)
        # ---- exclusion: records
        roots = W.nested_roots(at)
        roots_vis = [r for r in roots if status(r, spec) == "vis"]
        vis = W.visible_tree(at, eff)
        exp = {h: {} for h in [""] + roots_vis}
        if sf:
            sel = set()
            for t in targets:
                t = os.path.normpath(t)
                if os.path.isdir(os.path.join(at, t)):
                    sel.update(f for f, k in vis.items() if k == "f" and (f.startswith(t + os.sep)))
                else:
                    sel.add(t)
            for f in sel:
                h = W.owner_of(f, roots_vis)
                exp[h][os.path.relpath(f, h) if h else f] = "f"
        else:
            for e, k in vis.items():
                if e in roots_vis:
                    ph = parent_history(e, roots_vis)
                    exp[ph][os.path.relpath(e, ph) if ph else e] = "d"
                else:
                    h = W.owner_of(e, roots_vis)
                    exp[h][os.path.relpath(e, h) if h else e] = k
        flagged = set()
        for h in hist:
            got = {}
            for mf in new[h]:
                for r in W.read_manifest(mf)["records"]:
                    got[os.path.normpath(r["path"].replace("/", os.sep))] = r
            want = exp.get(h, {})
            for p in sorted(set(want) - set(got)):
                if True:
                    self.bad(f"history '{h or '.'}': {p!r} is not matched by {eff} but has no record in the new generation", f"{wc}/unmatched-not-recorded", args=args)
            for p in sorted(set(got) - set(want)):
                outer = os.path.normpath(os.path.join(h, p))
                st = status(outer, spec)
                if st == "ign":
                    w = f"{wc}/ignored-recorded"
                    if sf:
                        # where does the record come from: the pattern does not match relative to the -sf folder
                        for t in targets:
                            if outer.startswith(os.path.normpath(t) + os.sep) and status(os.path.relpath(outer, t), spec) == "vis":
                                w = "sf/pattern-not-matched-relative-to-history-root"
                    flagged.add(outer)
                    self.bad(f"history '{h or '.'}': {outer!r} is matched by the effective patterns {eff} but is recorded in {os.path.basename(new[h][0])}", w, args=args)
                elif st == "vis":
                    self.bad(f"history '{h or '.'}': unexpected record {outer!r}", f"{wc}/extra-record", args=args)
            # ---- exclusion: directory hashes
            if sf or "-n" in extra or self.ambiguous(at, spec):
                continue
            for mf in new[h]:
                m = W.read_manifest(mf)
                items = [(h or ".", m["roothash"] or [])] + [(os.path.normpath(os.path.join(h, p)), r["entries"]) for p, r in got.items() if r["is_dir"]]
                for f in sorted(set(fmts)):
                    oracle = self._dh(at, eff, f)
                    for d, entries in items:
                        if d not in oracle:
                            continue
                        for e in entries:
                            if e["format"] == f and (e["digest"], e["structure"]) != oracle[d]:
                                self.bad(
                                    f"history '{h or '.'}' {os.path.basename(mf)}: directory hash of {d!r} ({f}) is {e['digest']}/{e['structure']}, "
                                    f"the non-ignored entries under {eff} give {oracle[d][0]}/{oracle[d][1]}",
                                    "create/dirhash-includes-ignored" if self._dh_all(at, f).get(d) == (e["digest"], e["structure"]) else "create/dirhash",
                                    args=args,
                                )
        for r in roots:
            if status(r, spec) == "ign" and new.get(r):
                self.bad(f"nested history {r!r} is matched by {eff} but received generation {os.path.basename(new[r][0])}", f"{wc}/ignored-history-written", args=args)
        # ---- exclusion: never hashed, not new / missing / altered
        self.check_opened(at, spec, opened, f"{wc}/ignored-opened", args, skip=flagged)
        _, got_missing, got_mism = parse_report(out)
        if sf:
            exp_missing, tol_missing = set(), set()
            exp_mism = {p for p in exp_mism if any(os.path.normpath(os.path.join(h, q)) == p for h in exp for q in exp[h])}
        self.compare_reports(at, spec, "create" if not sf else "sf", args, code, out, None, set(), got_missing, exp_missing, tol_missing, got_mism, exp_mism)
        return code

    def _dh_all(self, at, f):
        """directory hashes over everything but the defaults (only used to label a mismatch)"""
        try:
            return W.dir_hashes(at, DEFAULT, f)
        except OSError:
            return {}

    def _dh(self, at, eff, f):
        key = (at, tuple(eff), f, self.steps)
        if getattr(self, "_dhk", None) != key:
            self._dhk, self._dhv = key, W.dir_hashes(at, eff, f)
        return self._dhv

    def compare_reports(self, at, spec, cmd, args, code, out, got_new, exp_new, got_missing, exp_missing, tol_missing, got_mism, exp_mism):
        def norm(xs):
            return {os.path.normpath(x) for x in xs}

        for kind, got, want, tol in (("new", got_new, exp_new, set()), ("missing", got_missing, exp_missing, tol_missing), ("altered", got_mism, exp_mism, set())):
            if got is None:
                continue
            got = norm(got)
            for p in sorted(got - want - tol):
                st = status(p, spec)
                if st == "ign":
                    self.bad(f"{cmd}: ignored path {p!r} is reported as {kind} (exit {code})", f"{cmd}/ignored-reported-{kind}", args=args)
                elif st == "vis":
                    self.bad(f"{cmd}: {p!r} is reported as {kind}, the oracle expects {sorted(want)}", f"{cmd}/unexpected-{kind}", args=args)
            for p in sorted(want - got):
                self.bad(f"{cmd}: {p!r} is not matched by the effective patterns and is {kind}, but it is not reported (exit {code}, reported {sorted(got)})", f"{cmd}/unmatched-{kind}-suppressed", args=args)
        if tol_missing:
            return
        clean = not (exp_missing or exp_mism or (got_new is not None and exp_new))
        if clean and code != 0:
            self.bad(f"{cmd} exits {code} although every difference lies on ignored paths: {out[-400:]}", f"{cmd}/exit-nonzero-on-ignored-difference", args=args)
        if not clean and code == 0:
            self.bad(
                f"{cmd} exits 0 although non-ignored paths differ (new {sorted(exp_new) if got_new is not None else []}, missing {sorted(exp_missing)}, altered {sorted(exp_mism)})",
                f"{cmd}/exit-zero-on-unmatched-difference",
                args=args,
            )

    # -- verify / diff
    def report_cmd(self, at, cmd, pats=(), how="i", spell="abs"):
        eff = self.effective(at, pats)
        spec = W.spec_of(eff)
        exp_new, exp_missing, tol_missing, exp_mism = self.oracle_report(at, eff)
        arg, cwd = self.spelled(at, spell)
        args = [arg] + self.deliver(pats, how, cwd)
        code, out, exc, opened = arun(cmd, args, cwd)
        self.steps += 1
        if exc is not None:
            self.bad(f"{cmd} aborted with {exc!r} (args {args})", f"{cmd}/exception", args=args)
            return code
        got_new, got_missing, got_mism = parse_report(out)
        if cmd == "diff":
            got_mism, exp_mism = None, set()
            for a in opened:
                rel = os.path.relpath(os.path.normpath(a), at)
                if not rel.startswith("..") and "ascmhl" not in rel.split(os.sep) and os.path.lexists(os.path.join(at, rel)) and status(rel, spec) == "ign":
                    self.bad(f"diff opened ignored path {rel!r}", "diff/ignored-opened", args=args)
        else:
            self.check_opened(at, spec, opened, "verify/ignored-opened", args)
        self.compare_reports(at, spec, cmd, args, code, out, got_new, exp_new, got_missing, exp_missing, tol_missing, got_mism, exp_mism)
        return code

    # -- verify -dh
    def dh(self, at, pats=(), how="i", spell="abs", hfmt=None):
        eff = self.effective(at, pats)
        spec = W.spec_of(eff)
        arg, cwd = self.spelled(at, spell)
        args = [arg, "-dh", "-co"] + (["-h", hfmt] if hfmt else []) + self.deliver(pats, how, cwd)
        code, out, exc, opened = arun("verify", args, cwd)
        self.steps += 1
        if exc is not None:
            self.bad(f"verify -dh aborted with {exc!r} (args {args})", "dh/exception", args=args)
            return
        self.check_opened(at, spec, opened, "dh/ignored-opened", args)
        got = parse_dirhashes(out)
        if not any(d == "." for d, _ in got):
            self.bad(f"verify -dh -co printed no root hash: {out[-300:]}", "dh/no-output", args=args)
        if not self.ambiguous(at, spec):
            for f in sorted({f for _, f in got}):
                oracle = W.dir_hashes(at, eff, f)
                for (d, ff), cs in sorted(got.items()):
                    if ff != f:
                        continue
                    if d not in oracle:
                        if status(d, spec) == "ign":
                            self.bad(f"verify -dh calculated a hash for the ignored directory {d!r}", "dh/ignored-dir-hashed", args=args)
                    elif oracle[d] != cs:
                        self.bad(
                            f"verify -dh: {f} directory hash of {d!r} is {cs[0]}/{cs[1]}, the non-ignored entries under {eff} give {oracle[d][0]}/{oracle[d][1]}",
                            "dh/dirhash",
                            args=args,
                        )
                for d in oracle:
                    if (d, f) not in got:
                        self.bad(f"verify -dh did not calculate a {f} hash for the non-ignored directory {d!r}", "dh/dir-not-calculated", args=args)
        # exit code: decided only when every generation holds hashes of one and the same visible tree; the run without
        # -co is made as well in the thorough tier and on every fourth call
        Ctx.dhcalls += 1
        runs = [(args, code, out)]
        if self.run.tier == "thorough" or Ctx.dhcalls % 4 == 0:
            args2 = [arg, "-dh"] + (["-h", hfmt] if hfmt else []) + self.deliver(pats, how, cwd)
            code2, out2, exc2, _ = arun("verify", args2, cwd)
            self.steps += 1
            if exc2 is not None:
                self.bad(f"verify -dh aborted with {exc2!r} (args {args2})", "dh/exception", args=args2)
                return
            runs.append((args2, code2, out2))
        if self.ambiguous(at, spec) or not self.sigs:
            return
        now = {os.path.normpath(os.path.join(at, d)): cs for d, cs in W.dir_hashes(at, eff, "md5").items()}
        differs = sorted(d for sig in self.sigs for d, cs in sig.items() if d in now and now[d] != cs)
        one_format = len(self.formats) == 1 and len(next(iter(self.formats))) == 1 and hfmt in (None, next(iter(self.formats))[0])
        for a, cd, o in runs:
            if not differs and cd != 0:
                self.bad(f"verify -dh exits {cd} although the non-ignored tree equals the one of every generation: {o[-400:]}", "dh/exit-nonzero-on-ignored-difference", args=a)
            if differs and cd == 0 and one_format:
                self.bad(f"verify -dh exits 0 although the non-ignored content of {differs[:3]} differs from a recorded generation", "dh/exit-zero-on-unmatched-difference", args=a)

    def all_reports(self, at, pats=(), how="i", spell="abs", dh=True, hfmt=None):
        self.report_cmd(at, "verify", pats, how, spell)
        self.report_cmd(at, "diff", pats, how, spell)
        if dh:
            self.dh(at, pats, how, spell, hfmt)

    # -- mutations
    def mutate_ignored(self, at, eff):
        """change the world on ignored paths only: alter bytes (once keeping size and mtime), delete, add files and folders"""
        spec = W.spec_of(eff)
        disk = self.disk(at)
        rec_files, _ = recorded(at)
        ign_files = sorted(p for p, v in disk.items() if v[0] == "f" and status(p, spec) == "ign")
        ign_dirs = sorted(p for p, v in disk.items() if v[0] == "d" and status(p, spec) == "ign")
        dirs = [""] + sorted(p for p, v in disk.items() if v[0] == "d")
        dirs.sort(key=lambda d: (d != "" and status(d, spec) != "vis", d))
        done = []
        if ign_files:
            p = os.path.join(at, ign_files[0])
            with open(p, "ab") as f:
                f.write(b"!")
            if ign_files[0] in rec_files:
                self.changed.add(p)
            done.append(("append", ign_files[0]))
        if len(ign_files) >= 3:
            p = os.path.join(at, ign_files[-1])
            st = os.stat(p)
            old = open(p, "rb").read()
            if old:
                with open(p, "wb") as f:
                    f.write(bytes([old[0] ^ 1]) + old[1:])
                os.utime(p, ns=(st.st_atime_ns, st.st_mtime_ns))
                if ign_files[-1] in rec_files:
                    self.changed.add(p)
                done.append(("same-size-same-mtime", ign_files[-1]))
        if len(ign_files) >= 2:
            os.remove(os.path.join(at, ign_files[1]))
            self.changed.discard(os.path.join(at, ign_files[1]))
            done.append(("delete", ign_files[1]))
        bases = sorted({os.path.basename(f) for f in ign_files}) + ["zz_new.bin"]
        added = 0
        for d in dirs:
            for b in bases:
                for cand in (os.path.join(d, b), os.path.join(d, "n_" + b)):
                    if added < 2 and not os.path.lexists(os.path.join(at, cand)) and status(cand, spec) == "ign":
                        W.build(at, {cand: "fresh ignored"})
                        done.append(("add", cand))
                        added += 1
        for d in dirs:
            for b in sorted({os.path.basename(x) for x in ign_dirs}):
                cand = os.path.join(d, b, "f.bin")
                if added < 3 and not os.path.lexists(os.path.join(at, d, b)) and status(cand, spec) == "ign" and status(d, spec) != "ign":
                    W.build(at, {cand: "fresh in ignored folder"})
                    done.append(("add-dir", cand))
                    added += 1
        return done

    def mutate_visible(self, at, eff):
        """change non-ignored paths: one new file, one altered recorded file, one deleted recorded file"""
        spec = W.spec_of(eff)
        disk = self.disk(at)
        files, _ = recorded(at)
        vis_files = sorted(p for p, v in disk.items() if v[0] == "f" and status(p, spec) == "vis" and p in files)
        dirs = [""] + sorted(p for p, v in disk.items() if v[0] == "d" and status(p, spec) == "vis")
        done = []
        for d in dirs:
            cand = os.path.join(d, "zz_fresh.dat")
            if status(cand, spec) == "vis" and not os.path.lexists(os.path.join(at, cand)):
                W.build(at, {cand: "fresh visible"})
                done.append(("add", cand))
                break
        if vis_files:
            p = os.path.join(at, vis_files[0])
            with open(p, "ab") as f:
                f.write(b"?")
            self.changed.add(p)
            done.append(("append", vis_files[0]))
        if len(vis_files) >= 2:
            os.remove(os.path.join(at, vis_files[-1]))
            self.changed.discard(os.path.join(at, vis_files[-1]))
            done.append(("delete", vis_files[-1]))
        return done


# ------------------------------------------------------------------------------------------------ scenario families
def excl_flow(run, cid, tree, nested, pset, how, spell, flow, fmts, holder="t", full=True):
    """one (tree, pattern set) through all commands; flow 'g1' gives the patterns in the first generation, 'late' seals
    everything first and brings the patterns later (so that recorded files become ignored)"""
    c = Ctx(run, cid, TREES[tree], holder)
    root = c.root
    spell2 = SPELLS[(SPELLS.index(spell) + 2) % len(SPELLS)]
    for nr in nested:
        c.create(os.path.join(root, nr), fmts=fmts, checked=False)
    if flow == "g1":
        c.create(root, pset, how, spell, fmts)
        eff = c.effective(root, [])
        c.mutate_ignored(root, eff)
        c.all_reports(root, (), "i", spell2, dh=True)
        c.create(root, [], "i", spell2, fmts)
    else:
        c.create(root, [], "i", spell2, fmts)
        eff = c.effective(root, pset)
        c.mutate_ignored(root, eff)
        c.all_reports(root, pset, how, spell, dh=True, hfmt=fmts[0] if len(fmts) > 1 else None)
        c.create(root, pset, how, spell, fmts)
        if full:
            c.all_reports(root, (), "i", "abs", dh=True)
    eff = c.effective(root, [])
    c.mutate_visible(root, eff)
    c.all_reports(root, (), "i", spell2 if flow == "late" else "abs", dh=full or flow == "g1")
    return c


def chain_script():
    everything = ["*.tmp", "Clips_proxy", "tmp/", "*.wav", "x.mov", "notes.txt", "!Clips/x.tmp", "a&b<c>'d.txt", NFD, NFC, "line\u2028sep.txt"]
    return [
        dict(p=["*.tmp"], how="i"),
        dict(p=[]),
        dict(p=["*.tmp", "Clips_proxy"], how="dup"),
        dict(p=["tmp/", "*.wav"], how="iilong", extra=["-n"]),
        dict(p=["x.mov"], how="long", sf=["Clips"]),
        dict(p=["notes.txt"], how="i", damage="Clips/sub/z.mov"),
        dict(p=[], fmts=["xxh64", "c4"]),
        dict(p=["!Clips/x.tmp"], how="i"),
        dict(p=["a&b<c>'d.txt"], how="long"),
        dict(p=[NFD, NFC], how="ii"),
        dict(p=["line\u2028sep.txt"], how="i", fmts=["md5", "md5"]),
        dict(p=everything + ["zero.bin"], how="iilong"),
        dict(p=["mov", "tmp", "DS_Store"], how="split"),  # substrings of patterns that are already there
        dict(p=[], spell="dot"),
    ]


def run_script(c, at, script, fmts=("md5",)):
    for st in script:
        dmg = st.get("damage")
        if dmg:
            p = os.path.join(at, dmg)
            old = open(p, "rb").read()
            with open(p, "wb") as f:
                f.write(old + b"damaged")
            c.changed.add(p)
        sf = st.get("sf")
        if sf:
            # a -sf target that is itself matched is named explicitly: the statement does not say which of the two wins
            spec = W.spec_of(c.effective(at, st.get("p", [])))
            sf = [t for t in sf if status(t, spec) == "vis"] or None
        code = c.create(at, st.get("p", []), st.get("how", "i"), st.get("spell", "abs"), st.get("fmts", fmts), st.get("extra", ()), sf)
        if dmg:
            if code != 11:
                c.bad(f"create on an altered recorded file {dmg!r} exits {code}, the scenario needs a failed generation (11)", "accumulate/failed-generation-setup")
            with open(p, "wb") as f:
                f.write(old)
            c.changed.discard(p)


def random_script(rnd, tree, length):
    pool = sorted({p for ps in PSETS[tree] for p in ps if not p.startswith("!") and p != "*"}) + ["*.zzz", "never/", "a&b.txt"]
    dirs = sorted({k.split("/")[0] for k in TREES[tree] if "/" in k and not isinstance(TREES[tree][k], tuple)})
    out = []
    for _ in range(length):
        st = dict(p=rnd.sample(pool, rnd.choice([0, 1, 1, 2, 3])), how=rnd.choice(HOWS), spell=rnd.choice(SPELLS))
        r = rnd.random()
        if r < 0.15:
            st["extra"] = ["-n"]
        elif r < 0.3 and dirs:
            st["sf"] = [rnd.choice(dirs)]
            st["p"] = [p for p in st["p"] if "/" not in p.rstrip("/")]
        st["fmts"] = rnd.choice([["md5"], ["xxh64"], ["c4", "md5"]])
        out.append(st)
    return out


class Case:
    """one case: counts it, and turns a break-down of the scenario or of the oracle (e.g. the tool left a world that can
    no longer be read) into a reported violation instead of a crash of the driver"""

    def __init__(self, run, cid, key, sample):
        self.run, self.cid, self.key, self.sample = run, cid, key, sample
        Ctx.last = None

    def __enter__(self):
        return self

    def __exit__(self, et, ev, tb):
        if et is not None and issubclass(et, Exception):
            where = traceback.extract_tb(tb)[-1]
            self.run.violation(self.cid, f"the case could not be evaluated: {ev!r} at {os.path.basename(where.filename)}:{where.lineno}", "driver/exception")
        c = Ctx.last
        self.run.case(self.cid, self.key, sample=dict(self.sample, case=self.cid, commands=c.steps if c else 0))
        return et is None or issubclass(et, Exception)


def main():
    run = Run(
        "C12",
        rule="case = one world (tree, nested-history placement, holder folder) driven through a script of commands; "
        "families: excl (pattern set x delivery x root spelling x {patterns in generation 1, patterns after everything was recorded}), "
        "chain (14 generations incl. -n, -sf, failed, other formats, negation), nested (child with own patterns, parent runs, "
        "child run alone), sf, neg (negation added later), holder (root below a folder named like a pattern), random (seeded scripts); "
        "non-trivial = distinct (family, tree, placement, pattern set, delivery, spelling, flow) with a user pattern or a default-ignored entry; "
        "every new manifest, every printed report line, every printed directory hash and every opened file is compared with the oracle",
        bound="11 trees (<= 15 entries, depth <= 4; prefix siblings, case pairs, spaces, NFC/NFD, XML-special, U+2028, symlinks incl. dangling, "
        "empty files/folders/tree, files of 2^20-1 / 2^20 / 2^20+1 bytes), <= 3 nested histories (3 levels), 73 pattern sets of <= 4 patterns plus the scripted ones "
        "(base names, globs ? * ** [], trailing-slash, anchored, inner slash, negation), 8 deliveries (-i, --ignore, repeated, -ii, --ignore_spec "
        "with blank lines / no final newline, mixed, relative -ii, split), 6 root spellings, <= 14 generations scripted (quick) / <= 20 random (thorough)",
    )
    thorough = run.tier == "thorough"
    rnd = random.Random(run.seed)
    fsets = S.format_sets(run.tier)
    k = run.seed

    # ---------------------------------------------------------------- excl
    for tree in TREES:
        has_default = any(os.path.basename(p.rstrip("/")) == ".DS_Store" for p in TREES[tree])
        for pi, pset in enumerate(PSETS[tree]):
            plans = []
            nests = list(range(len(NESTED[tree])))
            if thorough:
                # every placement; four of the eight deliveries (the starting point rotates), both flows
                for ni in nests:
                    for j in range(4 if pset else 2):
                        hi = (k + pi + ni + 2 * j + j // 2) % len(HOWS)
                        plans.append((ni, HOWS[hi], SPELLS[(k + hi + ni + pi) % len(SPELLS)], ("g1", "late")[j % 2], fsets[(k + pi + ni + 5 * j) % len(fsets)]))
            else:
                # every pattern set once (placement, delivery, spelling, flow and formats rotate), every other one a second
                # time on another placement with the other flow
                ni = (k + pi) % len(nests)
                plans.append((ni, HOWS[(k + pi) % len(HOWS)], SPELLS[(k + pi) % len(SPELLS)], ("g1", "late")[(k + pi) % 2], fsets[(k + pi) % len(fsets)]))
                if len(nests) > 1 and pi % 2 == 0:
                    ni2 = (ni + 1 + (pi // 2) % (len(nests) - 1)) % len(nests)
                    plans.append((ni2, HOWS[(k + pi + 3) % len(HOWS)], SPELLS[(k + pi + 1) % len(SPELLS)], ("late", "g1")[(k + pi) % 2], fsets[(k + pi + 1) % len(fsets)]))
            for ni, how, spell, flow, fmts in plans:
                if tree == "links":
                    flow = "g1"  # a dangling link can only be sealed when it is ignored from the first generation on
                cid = f"excl/{tree}/n{ni}/p{pi}/{how}/{spell}/{flow}"
                if not run.want(cid):
                    continue
                key = ("excl", tree, ni, tuple(pset), how, spell, flow) if (pset or has_default) else None
                with Case(run, cid, key, {"patterns": pset, "formats": fmts}):
                    excl_flow(run, cid, tree, NESTED[tree][ni], pset, how, spell, flow, fmts, full=thorough or pi % 3 == 0)
    # ---------------------------------------------------------------- holder: the root lies below / is named like a pattern
    for hi, (holder, pset) in enumerate([("skip/t", ["skip", "*.txt"]), ("ascmhl/t", ["deep"]), ("deep/A", ["A", "deep"]), ("x.txt/t", ["*.txt", "t"])]):
        for flow in ("g1", "late") if thorough else (("g1", "late")[hi % 2],):
            cid = f"holder/{holder.replace('/', '+')}/{flow}"
            if not run.want(cid):
                continue
            with Case(run, cid, ("holder", holder, flow), {"patterns": pset}):
                excl_flow(run, cid, "deep", [["A"], [], [], ["A/deep", "A"]][hi], pset, HOWS[hi], SPELLS[hi], flow, ["md5"], holder=holder)
    # ---------------------------------------------------------------- chain: one history, many generations
    for tree, nested in [("media", [])] + ([("media", ["Audio"])] if thorough else []):
        cid = f"chain/{tree}/{'+'.join(nested) or 'flat'}"
        if not run.want(cid):
            continue
        with Case(run, cid, ("chain", tree, tuple(nested)), {"generations": len(chain_script())}):
            c = Ctx(run, cid, TREES[tree])
            for nr in nested:
                c.create(os.path.join(c.root, nr), checked=False)
            run_script(c, c.root, chain_script())
            c.all_reports(c.root)
            c.mutate_ignored(c.root, c.effective(c.root, []))
            c.all_reports(c.root, (), "i", "slash")
            c.mutate_visible(c.root, c.effective(c.root, []))
            c.all_reports(c.root, ["*.zzz"], "ii", "rel")
    # ---------------------------------------------------------------- nested: child with own patterns, parent runs, child alone
    plans = [
        ("deep", ["A"], ["*.bin"], ["/a.txt"], ["B/"], "i", True),
        ("deep", ["A/deep", "A"], ["notes.txt", "E/"], ["/a.txt"], ["c.txt"], "ii", False),
        ("levels", ["L1/L2/L3", "L1/L2", "L1"], ["two.bin"], ["/one.bin"], ["top.bin"], "mix", True),
        ("levels", ["L1", "L1/L2", "L1/L2/L3"], ["L1/L2/L3/clip.bin"], ["/one.bin"], ["*.none"], "dup", False),
        ("prefix", ["Clips/sub", "Clips"], ["Clips_proxy"], ["/x.mov"], ["Clips.txt"], "iilong", True),
        ("media", ["Clips"], ["*.tmp", "tmp/"], ["/x.tmp"], ["*.wav"], "split", False),
        ("names", ["sp ace"], [NFC, "a&b<c>'d.txt"], ["/keep.txt"], ["line\u2028sep.txt"], "iirel", True),
    ]
    for ti, (tree, nested, P, Q, P2, how, own) in enumerate(plans):
        for variant in (0, 1) if thorough else (0,):
            cid = f"nested/{tree}/{'+'.join(nested).replace('/', '_')}/{how}/{variant}"
            if not run.want(cid):
                continue
            with Case(run, cid, ("nested", tree, tuple(nested), how, variant), {"patterns": [P, Q, P2]}):
                c = Ctx(run, cid, TREES[tree])
                root = c.root
                for j, nr in enumerate(nested):
                    c.create(os.path.join(root, nr), ["*.zzz", "own" + str(j)] if (own and j == 0) or variant else [], checked=False)
                c.create(root, P, how, SPELLS[ti % len(SPELLS)])
                child = os.path.join(root, nested[-1])
                c.create(child, Q, "i", SPELLS[(ti + 1) % len(SPELLS)])
                c.create(root, [], "i")
                c.all_reports(root, dh=False)
                c.create(root, P2, "ii", "rel", extra=["-n"] if variant else ())
                c.all_reports(root, dh=False)
                c.all_reports(child, dh=False)
                c.mutate_ignored(root, c.effective(root, []))
                c.all_reports(root, dh=False)
                c.create(root, [], "i", "dot")
    # ---------------------------------------------------------------- sf: create -sf folder / file with recorded and new patterns
    sf_plans = [
        ("deep", [], [], ["A"], ["*.txt"], "i", False),
        ("deep", [], [], ["A"], ["deep"], "ii", True),
        ("deep", [], ["*.bin"], ["A", "B"], [], "i", False),
        ("deep", [], ["*.bin"], ["A", "c.txt"], ["b.txt"], "mix", True),
        ("deep", ["A"], [], ["A/deep"], ["notes.txt"], "long", False),
        ("deep", ["A", "A/deep"], ["x.bin"], ["A"], [], "i", True),
        ("media", [], ["*.tmp"], ["Clips", "Audio"], [".DS_Store", "sub/"], "dup", False),
        ("prefix", ["Clips"], [], ["Clips", "Clips_proxy/y.mov"], ["x.mov"], "iilong", False),
        ("levels", ["L1/L2/L3", "L1/L2", "L1"], ["two.bin"], ["L1"], ["clip.bin"], "i", True),
        ("names", [], [], ["sp ace"], ["fi le.txt"], "ii", False),
        # patterns with an inner / leading slash are anchored at the root of the history, also for a -sf folder
        ("deep", [], [], ["A"], ["A/deep"], "i", False),
        ("deep", [], ["/A/a.txt"], ["A"], [], "i", False),
    ]
    for si, (tree, nested, rec_p, targets, new_p, how, rel) in enumerate(sf_plans):
        cid = f"sf/{si}/{tree}/{how}"
        if not run.want(cid):
            continue
        with Case(run, cid, ("sf", si), {"patterns": [rec_p, new_p], "targets": targets}):
            c = Ctx(run, cid, TREES[tree])
            root = c.root
            for nr in nested:
                c.create(os.path.join(root, nr), checked=False)
            if rec_p:
                c.create(root, rec_p, "i")
            c.create(root, new_p, how, "rel" if rel else "abs", sf=targets, sf_rel=rel)
            c.create(root, [], "i", sf=targets[:1])
            c.create(root, [], "i")
            c.all_reports(root, dh=False)
    # ---------------------------------------------------------------- neg: a negation pattern arrives in a later generation
    neg_plans = [
        ("media", ["*.mov"], ["!x.mov"], "i"),
        ("media", ["Clips"], ["!Clips/x.mov"], "ii"),
        ("deep", ["*.txt"], ["!a.txt"], "iilong"),
        ("deep", ["A/*"], ["!A/deep"], "long"),
    ]
    for gi, (tree, P, N, how) in enumerate(neg_plans):
        cid = f"neg/{gi}/{tree}"
        if not run.want(cid):
            continue
        with Case(run, cid, ("neg", gi), {"patterns": [P, N]}):
            c = Ctx(run, cid, TREES[tree])
            root = c.root
            if gi % 2:
                c.create(root, [], "i")
            c.create(root, P, "i")
            c.mutate_ignored(root, c.effective(root, []))
            c.all_reports(root)
            c.all_reports(root, N, how, "slash")
            c.create(root, N, how)
            c.all_reports(root)
            c.create(root, [], "i", "dot")
            c.mutate_visible(root, c.effective(root, []))
            c.all_reports(root)
    # ---------------------------------------------------------------- random scripts (seeded)
    for ri in range(12 if thorough else 2):
        tree = ["media", "deep", "prefix", "levels"][ri % 4]
        nested = NESTED[tree][rnd.randrange(len(NESTED[tree]))]
        script = random_script(rnd, tree, 20 if thorough else 8)
        cid = f"random/{run.seed}/{ri}"
        if not run.want(cid):
            continue
        with Case(run, cid, ("random", run.seed, ri), {"tree": tree, "nested": nested, "script": [(s["p"], s["how"]) for s in script][:6]}):
            c = Ctx(run, cid, TREES[tree])
            for nr in nested:
                c.create(os.path.join(c.root, nr), checked=False)
            run_script(c, c.root, script)
            c.all_reports(c.root, dh=True)
            c.mutate_ignored(c.root, c.effective(c.root, []))
            c.all_reports(c.root, dh=True)
    run.finish()


if __name__ == "__main__":
    main()
