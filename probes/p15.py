from h import *
import glob, re, hashlib
def snap(r):
    s={}
    for dp,dn,fn in os.walk(r):
        for f in fn:
            p=os.path.join(dp,f); st=os.stat(p); s[p]=(open(p,'rb').read(), st.st_mtime_ns, st.st_mode)
        for d in dn:
            p=os.path.join(dp,d); st=os.stat(p); s[p+'/']=(None, st.st_mtime_ns, st.st_mode)
    return s
print("== C06 several runs same second incl. failing; C14 snapshot")
r = fresh(); mk(r, {"A/a.txt":"a","b.txt":"b"})
run("create",[os.path.join(r,"A"),"-h","md5"],show=False)
prev=snap(r)
for i in range(4):
    if i==2: open(os.path.join(r,"b.txt"),"w").write("X"); prev=snap(r)
    x=run("create",[r,"-h","md5"] + (["-sf",os.path.join(r,"A/a.txt")] if i==3 else []),show=False)
    now=snap(r)
    changed=[p for p in now if p in prev and now[p]!=prev[p]]
    added=[p for p in now if p not in prev]
    print(i, "exit",x.exit_code, "changed:",[os.path.relpath(p,r) for p in changed], "added:",[os.path.relpath(p,r) for p in added])
    prev=now
for ch in glob.glob(r+"/**/ascmhl_chain.xml",recursive=True):
    t=open(ch).read()
    for nr,p,c4 in re.findall(r'sequencenr="(\d+)">\s*<path>([^<]*)</path>\s*<c4>([^<]*)</c4>',t):
        from ascmhl.hasher import hash_file
        print(os.path.relpath(ch,r), nr, p, hash_file(os.path.join(os.path.dirname(ch),p),"c4")==c4)
print("== C14 read-only commands")
for c,a in [("verify",[r]),("verify",[r,"-dh"]),("verify",[r,"-dh","-co"]),("diff",[r]),("info",[r]),("info",[r,"-sf",os.path.join(r,"b.txt")]),("hash",[os.path.join(r,"b.txt"),"-h","c4"]),("verify",[r,"-sf",os.path.join(r,"b.txt")])]:
    before=snap(os.path.dirname(r)); x=run(c,a,show=False); after=snap(os.path.dirname(r)); print(c,a[1:],x.exit_code,"UNCHANGED" if before==after else "CHANGED")
out=os.path.join(os.path.dirname(r),"out"); before=snap(r); x=run("flatten",[r,out],show=False); print("flatten",x.exit_code, "src UNCHANGED" if before==snap(r) else "src CHANGED", os.listdir(os.path.dirname(r)))
