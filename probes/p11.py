from h import *
import glob, re
print("== C08 prefix-named siblings + depth 3, created in odd order")
r = fresh(); mk(r, {"A/a.txt":"a","AB/ab.txt":"ab","A/B/C/c.txt":"c","A/B/b.txt":"b","top.txt":"t"})
run("create",[os.path.join(r,"A/B/C"),"-h","md5"],show=False)
run("create",[os.path.join(r,"AB"),"-h","md5"],show=False)
run("create",[os.path.join(r,"A"),"-h","md5"],show=False)
run("create",[r,"-h","md5","-v"])
for m in sorted(glob.glob(r+"/**/*.mhl",recursive=True)):
    t=open(m).read(); print(os.path.relpath(m,r), re.findall(r"<path[^>]*>([^<]*)</path>",t))
run("verify",[r]); run("verify",[r,"-dh"])
print("== -sf deep file")
run("create",[r,"-h","md5","-sf",os.path.join(r,"A/B/C/c.txt"),"-v"])
for m in sorted(glob.glob(r+"/**/*.mhl",recursive=True)):
    print(os.path.relpath(m,r))
print("== C19 info")
run("info",[r]); run("info",[r,"-sf",os.path.join(r,"A/B/C/c.txt")]); run("info",["-sf",os.path.join(r,"A/B/C/c.txt")])
run("info",[r,"-sf",os.path.join(r,"top.txt")])
