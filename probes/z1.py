from z3 import *
import time
P = Function('P', IntSort(), IntSort())
V = Function('V', StringSort(), IntSort())
idx = Function('idx', StringSort(), IntSort())
hv, hv2, m, v0 = Ints('hv hv2 m v0')
s, s2, c = Strings('s s2 c')
t=time.time()
sol = Solver(); sol.set("timeout", 20000)
sol.add(hv > 0, v0 == hv*P(Length(s)) + V(s))           # invariant at loop head + guard
sol.add(m == hv % 58, hv2 == hv / 58)                      # body
sol.add(Length(c)==1, idx(c)==m, s2 == Concat(c, s))
sol.add(V(s2) == idx(c)*P(Length(s)) + V(s))               # def-unfold instance
sol.add(P(Length(s)+1) == 58*P(Length(s)))                 # def-unfold instance
sol.add(Not(v0 == hv2*P(Length(s2)) + V(s2)))              # negated invariant after body
print("encoder step:", sol.check(), round(time.time()-t,2),"s")
# induction lemma  V(t+c) = 58 V(t) + idx(c)
t0,d,tp = Strings('t0 d tp')
sol = Solver(); sol.set("timeout", 20000)
sol.add(Length(d)==1, Length(c)==1, t0 == Concat(d,tp))
sol.add(V(Concat(tp,c)) == 58*V(tp)+idx(c))                # IH
sol.add(V(Concat(d,Concat(tp,c))) == idx(d)*P(Length(tp)+1) + V(Concat(tp,c)))  # def
sol.add(V(t0) == idx(d)*P(Length(tp)) + V(tp))             # def
sol.add(P(Length(tp)+1) == 58*P(Length(tp)))
sol.add(Not(V(Concat(t0,c)) == 58*V(t0)+idx(c)))
t=time.time(); print("lemma step:", sol.check(), round(time.time()-t,2),"s")
