from h import *
import glob
def setup():
    r = fresh(); mk(r, {"A/a.txt":"a","A/AA/x.txt":"x","b.txt":"b"})
    run("create",[os.path.join(r,"A","AA"),"-h","md5"],show=False)
    run("create",[os.path.join(r,"A"),"-h","md5"],show=False)
    run("create",[r,"-h","md5"],show=False)
    run("create",[r,"-h","md5"],show=False)
    return r
def snap(r):
    s={}
    for dp,dn,fn in os.walk(r):
        for f in fn:
            p=os.path.join(dp,f); s[p]=open(p,'rb').read()
        for d in dn: s[os.path.join(dp,d)+'/']=None
    return s
cmds = lambda r: [("create",[r]),("create",[r,"-sf",os.path.join(r,"b.txt")]),("verify",[r]),("verify",[r,"-dh"]),("diff",[r]),("info",[r]),("info",[r, "-sf",os.path.join(r,"b.txt")]),("flatten",[r,os.path.join(os.path.dirname(r),"out")])]
r=setup()
mans = sorted(glob.glob(r+"/**/*.mhl",recursive=True))
print(len(mans),"manifests")
import collections
res=collections.Counter()
for m in mans:
    for kind in ("flip","append_nl","remove"):
        r2=setup(); m2=sorted(glob.glob(r2+"/**/*.mhl",recursive=True))[mans.index(m)]
        b=open(m2,'rb').read()
        if kind=="flip": b2=bytearray(b); b2[len(b)//2]^=1; open(m2,'wb').write(bytes(b2))
        elif kind=="append_nl": open(m2,'ab').write(b"\n")
        else: os.remove(m2)
        for c,a in cmds(r2):
            before=snap(os.path.dirname(r2))
            x=run(c,a,show=False)
            after=snap(os.path.dirname(r2))
            exp = 33 if kind=="remove" else 31
            ok = x.exit_code==exp and before==after
            res[(c+(" -sf" if "-sf" in a else "")+(" -dh" if "-dh" in a else ""),kind,ok)]+=1
            if not ok: print("  NOT OK", os.path.relpath(m2,r2), kind, c, a[1:2], "exit",x.exit_code, "changed" if before!=after else "", repr(x.exception)[:100])
        shutil.rmtree(os.path.dirname(r2))
# chain missing
for sub in ("", "A", "A/AA"):
    r2=setup(); os.remove(os.path.join(r2,sub,"ascmhl","ascmhl_chain.xml"))
    for c,a in cmds(r2):
        before=snap(os.path.dirname(r2)); x=run(c,a,show=False); after=snap(os.path.dirname(r2))
        if not (x.exit_code==32 and before==after): print("  NOT OK chain", sub, c, a[1:2], x.exit_code, "changed" if before!=after else "", repr(x.exception)[:100])
print(sorted(res.items()))
