from h import *
import glob, re
print("== C02/C10 special names")
r = fresh(); mk(r, {"sp ace/ü&<>'\".txt":"a","quo\"te/x y.txt":"b", "E/":"", "é/ñ.bin":b"\x00\x01", "semi;colon/a#b%20.txt":"z", " lead":"l", "trail ":"t"})
run("create",[r,"-h","md5","-h","c4"])
m=glob.glob(r+"/ascmhl/*.mhl")[0]
from lxml import etree
ns={"m":"urn:ASC:MHL:v2.0"}
doc=etree.parse(m)
print([e.text for e in doc.findall(".//m:hashes//m:path",ns)])
run("verify",[r]); run("verify",[r,"-dh"]); run("diff",[r]); run("create",[r,"-h","md5"])
from ascmhl import hashlist_xml_parser
hl=hashlist_xml_parser.parse(m); print([mh.path for mh in hl.media_hashes])
print("== names with newline / leading-trailing whitespace / backslash")
r = fresh(); mk(r, {"a\nb.txt":"a","back\\slash.txt":"b","tab\there":"c"})
run("create",[r,"-h","md5"]); run("verify",[r]); run("diff",[r])
