import os, sys, shutil, tempfile, json, hashlib
from click.testing import CliRunner
import ascmhl.commands as C
from ascmhl.cli import update as _u  # may start thread
def mk(root, files):
    for p, c in files.items():
        fp = os.path.join(root, p)
        if p.endswith('/'):
            os.makedirs(fp, exist_ok=True); continue
        os.makedirs(os.path.dirname(fp), exist_ok=True)
        with open(fp, 'wb') as f: f.write(c if isinstance(c, bytes) else c.encode())
def run(cmd, args, show=True):
    r = CliRunner(mix_stderr=True).invoke(getattr(C, cmd), args)
    if show:
        print(f"$ {cmd} {' '.join(args)} -> exit {r.exit_code}")
        if r.exception and not isinstance(r.exception, SystemExit):
            import traceback
            print("   EXC:", repr(r.exception))
            traceback.print_tb(r.exc_info[2], limit=-3)
        out = r.output.strip()
        if out: print("   " + out.replace("\n", "\n   "))
    return r
def fresh(name="t"):
    d = tempfile.mkdtemp(prefix="probe_", dir="/tmp/probe")
    r = os.path.join(d, name); os.makedirs(r); return r
def cat_mhl(root):
    a = os.path.join(root, 'ascmhl')
    for f in sorted(os.listdir(a)):
        print('-----', f); print(open(os.path.join(a, f)).read())
