from z3 import *
import time, subprocess, tempfile, os
def chk(name, sol, expect=unsat):
    t=time.time(); r=sol.check(); dt=time.time()-t
    extra=""
    if r==unknown:
        # hand z3's unknown to cvc5
        smt="(set-logic ALL)\n"+sol.to_smt2()
        f=tempfile.NamedTemporaryFile("w",suffix=".smt2",delete=False); f.write(smt); f.close()
        t=time.time()
        try: out=subprocess.run(["cvc5","--strings-exp","--tlimit=20000",f.name],capture_output=True,text=True).stdout.strip().splitlines()[0]
        except Exception as e: out=str(e)
        extra=f" | cvc5: {out} {time.time()-t:.2f}s"; os.unlink(f.name)
    print(f"{name:62s} z3:{r} {dt:.2f}s{extra}")
S=StringSort(); SS=SeqSort(S)
old, cur, nxt, ps = Consts('old cur nxt ps', SS)
x=Const('x',S); k,a,b,c,n=Ints('k a b c n')
mem = lambda L,e: Exists([c], And(0<=c, c<Length(L), L[c]==e))
distinct = lambda L: ForAll([a,b], Implies(And(0<=a,a<b,b<Length(L)), L[a]!=L[b]))
covered = lambda L,k: ForAll([a], Implies(And(0<=a,a<k), mem(L, ps[a])))
# purified description of nxt = cur ++ [x]
app = [n==Length(cur), Length(nxt)==n+1, ForAll([c], Implies(And(0<=c,c<n), nxt[c]==cur[c])), nxt[n]==x, nxt==Concat(cur,Unit(x))]
base = [distinct(old), PrefixOf(old,cur), distinct(cur), covered(cur,k), 0<=k, k<Length(ps), x==ps[k]]
notin = ForAll([c], Implies(And(0<=c,c<Length(cur)), cur[c]!=x))
for nm, goal in [("prefix", PrefixOf(old,nxt)), ("distinct", distinct(nxt)), ("covered", covered(nxt,k+1))]:
    s=Solver(); s.set(timeout=20000); s.add(*base, notin, *app, Not(goal)); chk(f"append branch, conjunct {nm}", s)
s=Solver(); s.set(timeout=20000); s.add(*base, *app, Not(distinct(nxt))); chk("mutant (no membership test): distinct refuted? expect sat", s)
