from h import *
from lxml import etree
xsd = etree.XMLSchema(etree.parse('/repo/xsd/ASCMHL.xsd'))
def validate(root):
    a = os.path.join(root,'ascmhl')
    for f in sorted(os.listdir(a)):
        if f.endswith('.mhl'):
            ok = xsd.validate(etree.parse(os.path.join(a,f)))
            print("   XSD", f, ok, "" if ok else xsd.error_log.last_error)
print("== C11 empty folder")
r = fresh(); run("create",[r]); validate(r)
print("== C11 parent only references child after -sf")
r = fresh(); mk(r,{"A/a.txt":"a","b.txt":"b"})
run("create",[os.path.join(r,"A"),"-h","md5"])
run("create",[r,"-h","md5"]); validate(r)
run("create",[r,"-h","md5","-sf",os.path.join(r,"A/a.txt")]); validate(r); validate(os.path.join(r,"A"))
print("== C11 same file twice with -sf")
r = fresh(); mk(r,{"a.txt":"a"})
run("create",[r,"-h","md5","-sf",os.path.join(r,"a.txt"),"-sf",os.path.join(r,"a.txt")]); validate(r)
cat_mhl(r)
