from h import *
import ascmhl.chain_xml_parser as cx, ascmhl.hashlist_xml_parser as hx, builtins
class Crash(BaseException): pass
def crashing_open_factory(module, target_suffix, after_writes):
    real_open = builtins.open
    def o(path, mode="r", *a, **k):
        f = real_open(path, mode, *a, **k)
        if "w" in mode and str(path).endswith(target_suffix):
            n = [0]
            class W:
                def write(self, b):
                    if n[0] >= after_writes:
                        f.flush(); f.close(); raise Crash()
                    n[0]+=1; return f.write(b)
                def flush(self): f.flush()
                def close(self): f.close()
            return W()
        return f
    module.open = o
for module, suffix, name in ((cx, "ascmhl_chain.xml", "chain"), (hx, ".mhl", "manifest")):
    for k in (0, 1, 2):
        r = fresh(); mk(r, {"a.txt":"a"})
        run("create",[r,"-h","md5"],show=False)
        crashing_open_factory(module, suffix, k)
        try:
            run("create",[r,"-h","md5"],show=False)
        except Crash: pass
        if hasattr(module, "open"): del module.open
        print(f"crash in {name} after {k} writes:", sorted(os.listdir(os.path.join(r,'ascmhl'))))
        run("info",[r]); run("verify",[r])
