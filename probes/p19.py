from h import *
print("== C03 empty folder / only empty dirs")
r = fresh(); run("create",[r,"-h","md5"]); run("verify",[r]); run("diff",[r]); run("create",[r,"-h","md5"]); run("verify",[r,"-dh"])
r = fresh(); mk(r,{"E/":"","F/G/":""}); run("create",[r,"-h","md5"]); run("verify",[r]); run("diff",[r]); run("verify",[r,"-dh"])
print("== C19 no history")
r = fresh(); mk(r,{"a.txt":"a"}); run("info",[r]); run("info",[r,"-sf",os.path.join(r,"a.txt")]); run("info",["-sf",os.path.join(r,"a.txt")]); run("verify",[r]); run("diff",[r]); run("flatten",[r, r+"_out"])
print(os.listdir(os.path.dirname(r)))
