from h import *
import glob
print("== C18 flatten: multi generation, changing formats, failed entries, -sf partial")
r = fresh(); mk(r, {"A/a.txt":"a","b.txt":"b","c.txt":"c"})
run("create",[r,"-h","md5"])
run("create",[r,"-h","sha1","-sf",os.path.join(r,"b.txt")])
open(os.path.join(r,"c.txt"),"w").write("CHANGED")
run("create",[r,"-h","md5","-h","xxh64"])
out=os.path.join(os.path.dirname(r),"out")
run("flatten",[r,out,"-v"])
for f in glob.glob(out+"/**/*",recursive=True):
    print("---",f)
    if os.path.isfile(f): print(open(f).read())
pl=glob.glob(out+"/**/*.mhl",recursive=True)[0]
run("verify",[r,"-pl",pl])
open(os.path.join(r,"c.txt"),"w").write("c")
run("verify",[r,"-pl",pl])
open(os.path.join(r,"b.txt"),"w").write("bad")
run("verify",[r,"-pl",pl])
