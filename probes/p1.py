from h import *
# C16: size 0 ; C11 empty folder
r = fresh()
mk(r, {"empty.bin": b"", "a.txt": "a"})
run("create", [r, "-h", "md5"])
cat_mhl(r)
