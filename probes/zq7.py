# finitisation with explicit vectors: a sequence of bound B is (len, e0..e{B-1}); no seq theory, no quantifiers
from z3 import *
import time
B=3
class V:
    def __init__(s,name): s.n=Int(name+"_len"); s.e=[String(f"{name}_{i}") for i in range(B+1)]
    def wf(s,maxlen): return And(0<=s.n, s.n<=maxlen)
old,cur,nxt,ps=V("old"),V("cur"),V("nxt"),V("ps"); x=String("x"); k=Int("k")
R=range(B+1)
def at(L,i):  # symbolic index i -> ite chain
    r=L.e[B]
    for j in reversed(range(B)): r=If(i==j, L.e[j], r)
    return r
def distinct(L): return And([Implies(b<L.n, L.e[a]!=L.e[b]) for a in R for b in R if a<b])
def mem(L,e): return Or([And(c<L.n, L.e[c]==e) for c in R])
def covered(L,k): return And([Implies(a<k, mem(L, ps.e[a])) for a in R])
def prefix(A,Bv): return And(A.n<=Bv.n, And([Implies(i<A.n, A.e[i]==Bv.e[i]) for i in R]))
def append(A,e,C): return And(C.n==A.n+1, And([Implies(i<A.n, C.e[i]==A.e[i]) for i in R]), at(C,A.n)==e)
s=Solver(); s.set(timeout=20000)
s.add(old.wf(B-1),cur.wf(B-1),ps.wf(B),nxt.wf(B))
s.add(distinct(old), prefix(old,cur), distinct(cur), covered(cur,k), 0<=k, k<ps.n, x==at(ps,k), append(cur,x,nxt))
s.add(Not(distinct(nxt)))
t=time.time(); r=s.check(); print("vector-finitised mutant query:", r, f"{time.time()-t:.2f}s")
if r==sat:
    m=s.model(); ev=lambda L:[m.eval(L.e[i],True) for i in range(m.eval(L.n).as_long())]
    print("old",ev(old),"cur",ev(cur),"ps",ev(ps),"k",m.eval(k),"x",m.eval(x),"nxt",ev(nxt))
# and the unmutated code must stay unrefuted under the same finitisation
s=Solver(); s.add(old.wf(B-1),cur.wf(B-1),ps.wf(B),nxt.wf(B))
s.add(distinct(old), prefix(old,cur), distinct(cur), covered(cur,k), 0<=k, k<ps.n, x==at(ps,k), Not(mem(cur,x)), append(cur,x,nxt), Not(And(distinct(nxt),prefix(old,nxt),covered(nxt,k+1))))
print("vector-finitised original:", s.check())
