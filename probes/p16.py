from h import *
import glob, re
print("== C12 -sf with -i")
r = fresh(); mk(r, {"A/a.txt":"a","A/skip.tmp":"s","b.txt":"b"})
run("create",[r,"-h","md5","-sf",os.path.join(r,"A"),"-i","*.tmp"])
m=glob.glob(r+"/ascmhl/*.mhl")[0]; t=open(m).read(); print(re.findall(r"<path[^>]*>([^<]*)</path>",t), re.findall(r"<pattern>([^<]*)</pattern>",t))
print("== C12 -ii file")
r = fresh(); mk(r, {"A/a.txt":"a","A/skip.tmp":"s","b.txt":"b"})
open(os.path.join(os.path.dirname(r),"ign.txt"),"w").write("*.tmp\n\n# comment\nb.txt")
run("create",[r,"-h","md5","-ii",os.path.join(os.path.dirname(r),"ign.txt"),"-i","*.tmp"])
m=glob.glob(r+"/ascmhl/*.mhl")[0]; t=open(m).read(); print(re.findall(r"<path[^>]*>([^<]*)</path>",t), re.findall(r"<pattern>([^<]*)</pattern>",t))
print("== C13 enumeration order reversed: reference order")
import ascmhl.history as H, ascmhl.traverse as T
def build(rev):
    r = fresh(); mk(r, {"A/a.txt":"a","B/b.txt":"b","c.txt":"c"})
    for sub in ("A","B"): run("create",[os.path.join(r,sub),"-h","md5"],show=False)
    real_scandir=os.scandir; real_listdir=os.listdir
    if rev:
        class SD:
            def __init__(s,p): s.it=sorted(real_scandir(p),key=lambda e:e.name,reverse=True)
            def __iter__(s): return iter(s.it)
            def __enter__(s): return s
            def __exit__(s,*a): return False
            def close(s): pass
        os.scandir=lambda p='.': SD(p); os.listdir=lambda p='.': sorted(real_listdir(p),reverse=True)
    else:
        class SD2:
            def __init__(s,p): s.it=sorted(real_scandir(p),key=lambda e:e.name)
            def __iter__(s): return iter(s.it)
            def __enter__(s): return s
            def __exit__(s,*a): return False
            def close(s): pass
        os.scandir=lambda p='.': SD2(p); os.listdir=lambda p='.': sorted(real_listdir(p))
    try: run("create",[r,"-h","md5"],show=False)
    finally: os.scandir=real_scandir; os.listdir=real_listdir
    m=glob.glob(r+"/ascmhl/*.mhl")[0]; t=open(m).read(); return re.findall(r"<path[^>]*>([^<]*)</path>",t)
print(build(False)); print(build(True))
