import os, time
os.environ["TZ"]="Europe/Berlin"; time.tzset()
from h import *
import re, datetime
r = fresh(); mk(r, {"a.txt":"a"})
jan = datetime.datetime(2026,1,15,12,0,0,tzinfo=datetime.timezone.utc).timestamp()
os.utime(os.path.join(r,"a.txt"),(jan,jan))
run("create",[r,"-h","md5"])
t=open([os.path.join(r,"ascmhl",f) for f in os.listdir(os.path.join(r,"ascmhl")) if f.endswith(".mhl")][0]).read()
print(re.findall(r'lastmodificationdate="[^"]*"',t), re.findall(r"<creationdate>.*<",t), os.listdir(os.path.join(r,"ascmhl")))
print("true mtime instant:", datetime.datetime.fromtimestamp(jan).astimezone().isoformat(), " now:", datetime.datetime.now().astimezone().isoformat())
