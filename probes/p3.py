from h import *
import itertools
F = ["md5","sha1","xxh64","c4"]
# C04: sequences of format subsets (length 3) on an unchanged file; look for non-zero exits
subsets = [s for n in (1,2) for s in itertools.combinations(F, n)]
bad = {}
for seq in itertools.product(subsets, repeat=3):
    r = fresh(); mk(r, {"a.txt":"a"})
    codes=[]
    for s in seq:
        args=[r]
        for f in s: args += ["-h", f]
        res = run("create", args, show=False)
        codes.append((res.exit_code, type(res.exception).__name__ if res.exception and not isinstance(res.exception, SystemExit) else None))
    shutil.rmtree(os.path.dirname(r))
    if any(c!=(0,None) for c in codes):
        bad[seq]=codes
print(len(bad), "bad sequences of", len(subsets)**3)
for k,v in list(bad.items())[:8]: print(k, v)
