# counter-model search by finitisation: bound sequence lengths, expand quantifiers over the finite index range
from z3 import *
import time, itertools
S=StringSort(); SS=SeqSort(S)
old, cur, nxt, ps = Consts('old cur nxt ps', SS); x=Const('x',S); k=Int('k')
B=3
rng=range(B+1)
def distinct(L): return And([Implies(And(a<b, b<Length(L)), L[a]!=L[b]) for a in rng for b in rng if a<b])
def mem(L,e): return Or([And(c<Length(L), L[c]==e) for c in rng])
def covered(L,k): return And([Implies(a<k, mem(L, ps[a])) for a in rng])
s=Solver(); s.set(timeout=20000)
s.add(Length(old)<=B-1, Length(cur)<=B-1, Length(ps)<=B, Length(nxt)<=B)
s.add(distinct(old), PrefixOf(old,cur), distinct(cur), covered(cur,k), 0<=k, k<Length(ps), x==ps[k], nxt==Concat(cur,Unit(x)))
s.add(Not(distinct(nxt)))
t=time.time(); r=s.check(); print("finitised mutant query:", r, f"{time.time()-t:.2f}s")
if r==sat:
    m=s.model(); print({str(d): m[d] for d in m.decls() if str(d) in ("old","cur","ps","k","x","nxt")})
