# VCs for ignore._append_patterns_list as a sequential loop: for x in ps: if x not in L: L.append(x)
from z3 import *
import time
def chk(name, sol, expect=unsat):
    t=time.time(); r=sol.check(); print(f"{name:60s} {r} {time.time()-t:.2f}s", "" if r==expect else "  <-- UNEXPECTED")
S=StringSort(); SS=SeqSort(S)
old, cur, nxt, ps = Consts('old cur nxt ps', SS)
x=Const('x',S); k,a,b,c=Ints('k a b c')
mem = lambda L,e: Exists([c], And(0<=c, c<Length(L), L[c]==e))
distinct = lambda L: ForAll([a,b], Implies(And(0<=a,a<b,b<Length(L)), L[a]!=L[b]))
covered = lambda L,k: ForAll([a], Implies(And(0<=a,a<k), mem(L, ps[a])))
inv = lambda L,k: And(PrefixOf(old,L), distinct(L), covered(L,k), 0<=k, k<=Length(ps))
# branch: x not in cur -> append
s=Solver(); s.set(timeout=20000)
s.add(distinct(old), inv(cur,k), k<Length(ps), x==ps[k], Not(mem(cur,x)), nxt==Concat(cur, Unit(x)), Not(inv(nxt,k+1)))
chk("dedup loop: inv preserved (append branch)", s)
# branch: x in cur -> skip
s=Solver(); s.set(timeout=20000)
s.add(distinct(old), inv(cur,k), k<Length(ps), x==ps[k], mem(cur,x), Not(inv(cur,k+1)))
chk("dedup loop: inv preserved (skip branch)", s)
# mutant: append unconditionally -> distinct must fail
s=Solver(); s.set(timeout=20000)
s.add(distinct(old), inv(cur,k), k<Length(ps), x==ps[k], nxt==Concat(cur, Unit(x)), Not(inv(nxt,k+1)))
chk("mutant (no membership test) refuted", s, expect=sat)
