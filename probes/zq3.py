# Hand-written VCs shaped like what pyvc would emit for history.find_first_hash_entry_for_path
# heap model: refs are Ints; fields are arrays; sequences of refs are z3 Seq(Int)
from z3 import *
import time
def chk(name, sol, expect=unsat):
    t=time.time(); r=sol.check(); print(f"{name:60s} {r} {time.time()-t:.2f}s", "" if r==expect else "  <-- UNEXPECTED")
Ref=IntSort(); S=StringSort()
hls   = Const('hls', SeqSort(Ref))                 # self.hash_lists
pmap  = Function('pmap', Ref, S, Ref)              # hash_list.media_hashes_path_map.get(path)  (0 = None)
ents  = Function('ents', Ref, SeqSort(Ref))        # media_hash.hash_entries
fmt   = Function('fmt', Ref, S)                    # entry.hash_format
p,f   = Consts('p f', S)
i,k,j,m = Ints('i k j m')
def nomatch_gen(g):  # no entry of format f for path p in generation index g
    mh = pmap(hls[g], p)
    return Or(mh==0, ForAll([m], Implies(And(0<=m, m<Length(ents(mh))), fmt(ents(mh)[m])!=f)))
inv_outer = lambda i: ForAll([j], Implies(And(0<=j, j<i), nomatch_gen(j)))
# spec: first(H,p,f) is None  <=>  forall generations no match
spec_none = ForAll([j], Implies(And(0<=j, j<Length(hls)), nomatch_gen(j)))
# (1) exit of outer loop with invariant => post for `return None`
s=Solver(); s.set(timeout=10000); s.add(i==Length(hls), inv_outer(i), Not(spec_none)); chk("return None: inv & exit => first is None", s)
# (2) preservation when media_hash is None (continue)
s=Solver(); s.set(timeout=10000); s.add(0<=i, i<Length(hls), inv_outer(i), pmap(hls[i],p)==0, Not(inv_outer(i+1))); chk("outer inv preserved (media_hash None)", s)
# (3) inner loop: invariant no match among entries[0..k); exit k==len => outer inv for i+1
mh=pmap(hls[i],p)
inv_inner = lambda k: ForAll([m], Implies(And(0<=m, m<k), fmt(ents(mh)[m])!=f))
s=Solver(); s.set(timeout=10000); s.add(0<=i, i<Length(hls), inv_outer(i), mh!=0, k==Length(ents(mh)), inv_inner(k), Not(inv_outer(i+1))); chk("outer inv preserved (inner loop exhausted)", s)
# (4) return entry: result is the first match: spec is_first(i,k)
res = ents(mh)[k]
is_first = And(inv_outer(i), mh!=0, 0<=k, k<Length(ents(mh)), inv_inner(k), fmt(res)==f)
s=Solver(); s.set(timeout=10000); s.add(0<=i, i<Length(hls), inv_outer(i), mh!=0, 0<=k, k<Length(ents(mh)), inv_inner(k), fmt(ents(mh)[k])==f, Not(is_first)); chk("return entry: it is first(H,p,f)", s)
# (5) a mutant: code returns on the LAST generation first (scan reversed) -> post must be refuted
s=Solver(); s.set(timeout=10000)
s.add(Length(hls)==2, i==1, mh!=0, k==0, Length(ents(mh))>0, fmt(ents(mh)[0])==f)  # found in generation 1 without having scanned generation 0
s.add(Not(And(inv_outer(i))))   # post demands nothing earlier matches
chk("mutant (reverse scan) refuted", s, expect=sat)
