from h import *
import glob
print("== C12 patterns accumulate; nested get parent's")
r = fresh(); mk(r, {"A/a.txt":"a","A/skip.tmp":"s","b.txt":"b","logs/x.log":"x","keep/y.log":"y"})
run("create",[os.path.join(r,"A"),"-h","md5","-i","*.tmp"])
run("create",[r,"-h","md5","-i","*.log","-i","logs/"])
run("create",[r,"-h","md5","-i","b.txt","-i","*.log"])
for m in sorted(glob.glob(r+"/**/*.mhl",recursive=True)):
    t=open(m).read(); print(os.path.relpath(m,r), [l.strip() for l in t.splitlines() if "<pattern>" in l], [l.strip() for l in t.splitlines() if "<path" in l])
run("verify",[r]); run("diff",[r]); run("verify",[r,"-dh"])
open(os.path.join(r,"b.txt"),"w").write("ignored change")
run("verify",[r]); run("diff",[r]); run("verify",[r,"-dh"])
print("== C12 ignoring a previously recorded then removed file")
os.remove(os.path.join(r,"b.txt"))
run("verify",[r]); run("diff",[r])
