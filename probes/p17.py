from h import *
import glob, re
import ascmhl.history as H
def build(rev):
    r = fresh(); mk(r, {"A/a.txt":"a","B/b.txt":"b","c.txt":"c"})
    for sub in ("A","B"): run("create",[os.path.join(r,sub),"-h","md5"],show=False)
    real_walk=os.walk
    def walk(top, **k):
        for root,dirs,files in real_walk(top, **k):
            dirs.sort(reverse=rev); files.sort(reverse=rev)
            yield root,dirs,files
    os.walk=walk
    try: x=run("create",[r,"-h","md5"],show=False)
    finally: os.walk=real_walk
    m=glob.glob(r+"/ascmhl/*.mhl")[0]; t=open(m).read(); return re.findall(r"<path[^>]*>([^<]*)</path>",t)
print(build(False)); print(build(True))
