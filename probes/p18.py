from h import *
import glob, re
from ascmhl import hashlist_xml_parser as hx
r = fresh(); mk(r, {"a.txt":"a"})
run("create",[r,"-h","md5","--author_name","-","--author_email","a@b.c","--comment","","--location"," x & <y> "])
m=glob.glob(r+"/ascmhl/*.mhl")[0]; print(open(m).read()[:700])
hl=hx.parse(m); ci=hl.creator_info
print(repr(ci.comment), repr(ci.location), [(a.name,a.email,a.phone,a.role) for a in ci.authors], repr(hl.process_info.process), hl.process_info.ignore_spec)
print("== author only role")
r = fresh(); mk(r, {"a.txt":"a"})
run("create",[r,"-h","md5","--author_role","DIT"])
m=glob.glob(r+"/ascmhl/*.mhl")[0]; hl=hx.parse(m); print([(a.name,a.email,a.phone,a.role) for a in hl.creator_info.authors]); print(re.findall(r"<author.*",open(m).read()))
